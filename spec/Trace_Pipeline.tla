--------------------------- MODULE Trace_Pipeline ---------------------------
(***************************************************************************)
(* Trace validation of REAL runs of tauri-typegen (CLI binary and build    *)
(* driver) against the contract layer of the Pipeline specification.       *)
(*                                                                         *)
(* A trace is a sequence of behaviours separated by Reset events.  Within  *)
(* a behaviour the harness logs, in program order of one process at a time:*)
(*   Env       what the environment did between runs (edit / lose / place) *)
(*   RunStart  driver, forced                                              *)
(*   Sys       one file-mutating system call seen by strace (open for      *)
(*             writing, unlink, rename, mkdir, rmdir): path class, name,   *)
(*             success                                                     *)
(*   RunEnd    exit status class, "up to date" reported                    *)
(*   Snapshot  per expected file current/stale/absent against a fresh      *)
(*             forced generation; foreign paths changed; would a further   *)
(*             non-forced run skip?                                        *)
(* The contract keeps only the state it needs (was the project cleanly     *)
(* generated, what has this run written, did a write fail).  Every event   *)
(* is always accepted -- a violated obligation prints a MISMATCH line with *)
(* the property it belongs to and validation continues -- so one pass      *)
(* reports every violation of every behaviour.                             *)
(***************************************************************************)
EXTENDS Naturals, Sequences, FiniteSets, TLC, Json, IOUtils

Rec == ndJsonDeserialize(IOEnv.TRACE)

VARIABLES l, st

AsSet(s) == {s[i] : i \in DOMAIN s}

\* ---- C16: the tool's reserved generated names (property text), on character sequences
Str(cs) == cs
IsPrefix(p, s) == Len(p) <= Len(s) /\ SubSeq(s, 1, Len(p)) = p
Contains(s, p) == \E i \in 1..(Len(s) - Len(p) + 1) : SubSeq(s, i, i + Len(p) - 1) = p
Chars(str) == str     \* names arrive as sequences of one-character strings

ReservedExact == {
    <<"t","y","p","e","s",".","t","s">>, <<"t","y","p","e","s",".","d",".","t","s">>,
    <<"c","o","m","m","a","n","d","s",".","t","s">>, <<"c","o","m","m","a","n","d","s",".","d",".","t","s">>,
    <<"e","v","e","n","t","s",".","t","s">>, <<"e","v","e","n","t","s",".","d",".","t","s">>,
    <<"i","n","d","e","x",".","t","s">>, <<"i","n","d","e","x",".","d",".","t","s">>,
    <<"s","c","h","e","m","a","s",".","t","s">>, <<"s","c","h","e","m","a","s",".","d",".","t","s">>,
    <<"m","o","d","e","l","s",".","t","s">>, <<"m","o","d","e","l","s",".","d",".","t","s">>,
    <<"b","i","n","d","i","n","g","s",".","t","s">>, <<"b","i","n","d","i","n","g","s",".","d",".","t","s">>,
    <<".","t","y","p","e","c","a","c","h","e">>,
    <<"d","e","p","e","n","d","e","n","c","y","-","g","r","a","p","h",".","t","x","t">>,
    <<"d","e","p","e","n","d","e","n","c","y","-","g","r","a","p","h",".","d","o","t">> }

IsReservedName(cs) ==
    \/ cs \in ReservedExact
    \/ IsPrefix(<<"g","e","n","e","r","a","t","e","d","_">>, cs)
    \/ Contains(cs, <<"_","g","e","n","e","r","a","t","e","d">>)

\* where a mutated path lies: "out" (directly inside the output directory), "outdir" (the output
\* directory itself or one of its ancestors being created), "config" (the configuration file init
\* was pointed at), "elsewhere"
MutationAllowed(e) ==
    \/ e.where = "out" /\ IsReservedName(e.ncs)
    \/ e.where = "outdir" /\ e.op = "mkdir"
    \/ e.where = "config" /\ st.driver = "init"

IsBindingWrite(e) == e.where = "out" /\ e.op = "write" /\ e.name # ".typecache" /\ IsReservedName(e.ncs)
IsCacheWrite(e) == e.where = "out" /\ e.op = "write" /\ e.name = ".typecache"

\* ---- C13: a and b map each generated file to the sequence of digests of its top-level declarations
GraphFiles == {"dependency-graph.txt", "dependency-graph.dot"}
SameSeq(e, f) == f \in DOMAIN e.a /\ f \in DOMAIN e.b /\ e.a[f] = e.b[f]
SameSet(e, f) == f \in DOMAIN e.a /\ f \in DOMAIN e.b /\ AsSet(e.a[f]) = AsSet(e.b[f]) /\ Len(e.a[f]) = Len(e.b[f])
OutputsOk(e) ==
    CASE e.relation = "identical" -> \A f \in DOMAIN e.a \cup DOMAIN e.b : SameSeq(e, f)
      [] e.relation = "vizonly"   -> /\ DOMAIN e.b = DOMAIN e.a \cup GraphFiles
                                     /\ \A f \in DOMAIN e.a : SameSeq(e, f)
      [] e.relation = "declset"   -> \A f \in DOMAIN e.a \cup DOMAIN e.b : SameSet(e, f)
      [] OTHER -> FALSE
BadFiles(e) ==
    {f \in DOMAIN e.a \cup DOMAIN e.b :
        IF e.relation = "declset" THEN ~SameSet(e, f)
        ELSE IF f \in GraphFiles /\ e.relation = "vizonly" THEN FALSE ELSE ~SameSeq(e, f)}

Fresh == [clean |-> FALSE, inRun |-> FALSE, forced |-> FALSE, driver |-> "none",
          wrote |-> {}, cacheWritten |-> FALSE, cacheFailed |-> FALSE, failed |-> FALSE, status |-> "none",
          upToDate |-> FALSE, lostByEnv |-> {}, case |-> "none"]

Report(ok, prop, what) ==
    IF ok THEN TRUE ELSE PrintT(<<"MISMATCH", l, prop, st.case, what>>)

Step(e) ==
    CASE e.event = "Reset" ->
            st' = [Fresh EXCEPT !.case = e.case]
      [] e.event = "Env" ->
            st' = [st EXCEPT !.clean = FALSE,
                             !.lostByEnv = IF e.kind = "lose" THEN @ \cup {e.what} ELSE @]
      [] e.event = "RunStart" ->
            st' = [st EXCEPT !.inRun = TRUE, !.forced = e.forced, !.driver = e.driver,
                             !.wrote = {}, !.cacheWritten = FALSE, !.cacheFailed = FALSE, !.failed = FALSE]
      [] e.event = "Sys" ->
            /\ Report(MutationAllowed(e), "C16", <<"mutation outside the reserved names", e.op, e.path>>)
            \* C14: nothing is touched when nothing changed since a successful generation
            /\ Report(~(st.clean /\ ~st.forced /\ st.inRun), "C14",
                      <<"unchanged project, non-forced run, yet the run mutates", e.op, e.path>>)
            \* C17: no binding file is written after the cache record of the same run
            /\ Report(~(IsBindingWrite(e) /\ st.cacheWritten /\ e.ordered), "C17",
                      <<"file written after the cache record that vouches for it", e.path>>)
            /\ st' = [st EXCEPT
                        !.wrote = IF e.op = "write" /\ e.where = "out" /\ e.ok THEN @ \cup {e.name} ELSE @,
                        !.cacheWritten = @ \/ (IsCacheWrite(e) /\ e.ok),
                        !.cacheFailed = @ \/ (IsCacheWrite(e) /\ ~e.ok),
                        !.failed = @ \/ (IsBindingWrite(e) /\ ~e.ok),
                        !.lostByEnv = IF e.op = "write" /\ e.ok THEN @ \ {e.name} ELSE @]
      [] e.event = "RunEnd" ->
            \* C15: a run ends by succeeding or by reporting an error -- never by a panic / abort
            /\ Report(e.status \in {"ok", "err"} \/ e.injectedKill, "C15", <<"run ended abnormally", e.status>>)
            \* C17: a failed write of a binding file is reported as failure
            /\ Report(st.failed => e.status # "ok", "C17", <<"a write failed but the run reports success">>)
            /\ st' = [st EXCEPT !.inRun = FALSE, !.status = e.status,
                                !.upToDate = e.upToDate \/ (e.status = "ok" /\ e.wroteNothing)]
      [] e.event = "Snapshot" ->
            LET expected == AsSet(e.expected)
                cur(f) == e.files[f] = "current"
                okRun == st.status = "ok"
            IN
            \* C08 / C14-force: success means every expected file is present and current
            /\ Report(okRun => \A f \in expected : cur(f),
                      IF st.forced THEN "C14" ELSE "C08",
                      <<"run reported success but files are not current",
                        {<<f, e.files[f]>> : f \in {g \in expected : ~cur(g)}}, "upToDate", st.upToDate>>)
            \* C14: a forced run rewrites every expected file
            /\ Report((okRun /\ st.forced /\ expected # {}) => expected \subseteq st.wrote, "C14",
                      <<"forced run did not rewrite", expected \ st.wrote>>)
            \* C14: on an unchanged, cleanly generated project a non-forced run leaves every file of the
            \* output directory (bytes, mtime, inode) and the directory itself untouched
            /\ Report((st.clean /\ ~st.forced) => Len(e.outChanged) = 0, "C14",
                      <<"unchanged project, non-forced run, yet the output directory changed", e.outChanged>>)
            \* C16: nothing foreign changed
            /\ Report(Len(e.foreignChanged) = 0, "C16", <<"foreign paths changed", e.foreignChanged>>)
            \* C17: the cache never vouches for files that are not current (unless the environment lost them)
            /\ Report(e.wouldSkip = "yes" => \A f \in expected : cur(f) \/ f \in st.lostByEnv, "C17",
                      <<"a further non-forced run would report up to date although files are not current",
                        {<<f, e.files[f]>> : f \in {g \in expected : ~cur(g)}}>>)
            /\ st' = [st EXCEPT !.clean =
                        IF st.status # "ok" \/ expected = {} THEN FALSE
                        ELSE IF st.upToDate THEN @
                        \* a successful generation leaves a cleanly generated project behind - unless writing the cache
                        \* record was attempted and failed (then the next run legitimately regenerates).  A run that
                        \* does not even try to record itself is NOT excused: the next unchanged run must still be quiet.
                        ELSE ~st.cacheFailed]
      [] e.event = "Outputs" ->
            \* C13: two generations (different processes / transformed sources) related as the property demands
            /\ Report(OutputsOk(e), "C13", <<e.relation, e.what, BadFiles(e)>>)
            /\ UNCHANGED st
      [] OTHER -> Report(FALSE, "TRACE", <<"unknown event", e.event>>) /\ UNCHANGED st

TraceInit == l = 1 /\ st = Fresh
TraceNext ==
    /\ l <= Len(Rec)
    /\ Step(Rec[l])
    /\ l' = l + 1
TraceSpec == TraceInit /\ [][TraceNext]_<<l, st>>

TraceAccepted ==
    LET d == TLCGet("stats").diameter IN
    IF d - 1 = Len(Rec) THEN PrintT(<<"TRACE-CONSUMED", Len(Rec)>>)
    ELSE PrintT(<<"TRACE-STUCK", d, Len(Rec)>>) /\ FALSE
=============================================================================
