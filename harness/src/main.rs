//! tth — the Rust side of the verification harness.
//!
//! It never judges anything: it drives the REAL tauri-typegen code (library API)
//! with cases produced from the TLA+ specification and records what the code did
//! as ndjson events that TLC validates against the specification.
mod build_driver;
mod config;
mod corpus;
mod gen;
mod scan;
mod topo;

fn main() {
    let args: Vec<String> = std::env::args().collect();
    if args.len() < 2 {
        eprintln!("usage: tth <topo|gen|build|corpus> ...");
        std::process::exit(2);
    }
    let rest = &args[2..];
    let code = match args[1].as_str() {
        "topo" => topo::main(rest),
        "gen" => gen::main(rest),
        "build" => build_driver::main(rest),
        "corpus" => corpus::main(rest),
        "config" => config::main(rest),
        "scan" => scan::main(rest),
        other => {
            eprintln!("unknown subcommand {}", other);
            2
        }
    };
    std::process::exit(code);
}
