//! X02: drives the REAL ProjectScanner on directory trees built from TLC-enumerated abstract chains.
//!   tth scan <cases.ndjson> <work dir> <out.ndjson>
//! case: {"chain":[{json,js,st,dev,pkg}, ...]}  chain[0] = start directory, chain[i+1] = its parent.
//! output per case: {"case": n, "chain": .., "observed": {found, level, config, src, out}}
use serde_json::{json, Value};
use std::io::{BufRead, Write};
use std::path::{Path, PathBuf};
use tauri_typegen::build::ProjectScanner;

fn populate(dir: &Path, d: &Value) -> std::io::Result<()> {
    std::fs::create_dir_all(dir)?;
    if d["json"].as_bool().unwrap_or(false) {
        let body = match d["dev"].as_str().unwrap_or("none") {
            "app" => "{\"productName\": \"x\", \"build\": {\"devPath\": \"app\", \"other\": 1}}".to_string(),
            "notjson" => "{ this is not json".to_string(),
            _ => "{\"productName\": \"x\", \"build\": {\"frontendDist\": \"../dist\"}}".to_string(),
        };
        std::fs::write(dir.join("tauri.conf.json"), body)?;
    }
    if d["js"].as_bool().unwrap_or(false) {
        std::fs::write(dir.join("tauri.conf.js"), "module.exports = { build: { devPath: 'jsapp' } }\n")?;
    }
    match d["st"].as_str().unwrap_or("none") {
        "file" => std::fs::write(dir.join("src-tauri"), "not a directory\n")?,
        "dir" => std::fs::create_dir_all(dir.join("src-tauri"))?,
        _ => {}
    }
    if d["pkg"].as_bool().unwrap_or(false) {
        std::fs::write(dir.join("package.json"), "{}\n")?;
    }
    Ok(())
}

pub fn main(args: &[String]) -> i32 {
    if args.len() < 3 {
        eprintln!("usage: tth scan <cases.ndjson> <work dir> <out.ndjson>");
        return 2;
    }
    let cases = match std::fs::File::open(&args[0]) {
        Ok(f) => std::io::BufReader::new(f),
        Err(e) => {
            eprintln!("{}", e);
            return 2;
        }
    };
    let work = PathBuf::from(&args[1]);
    let mut out = match std::fs::File::create(&args[2]) {
        Ok(f) => f,
        Err(e) => {
            eprintln!("{}", e);
            return 2;
        }
    };
    let mut n = 0usize;
    for line in cases.lines().map_while(Result::ok) {
        let v: Value = match serde_json::from_str(&line) {
            Ok(v) => v,
            Err(_) => continue,
        };
        let chain = match v["chain"].as_array() {
            Some(c) => c.clone(),
            None => continue,
        };
        n += 1;
        let root = work.join(format!("case{}", n));
        let _ = std::fs::remove_dir_all(&root);
        // directories: top = chain[last] ... start = chain[0]
        let mut dirs: Vec<PathBuf> = Vec::new();
        let mut cur = root.clone();
        for i in (0..chain.len()).rev() {
            cur = cur.join(format!("level{}", i + 1));
            dirs.push(cur.clone());
        }
        dirs.reverse(); // dirs[0] = start directory
        let mut ok = true;
        for (i, d) in chain.iter().enumerate() {
            if populate(&dirs[i], d).is_err() {
                ok = false;
            }
        }
        if !ok {
            continue;
        }
        let start = dirs[0].clone();
        let res = std::panic::catch_unwind(|| {
            let sc = ProjectScanner::with_current_dir(&start);
            match sc.detect_project() {
                Ok(Some(info)) => {
                    let out = sc.get_recommended_output_path(&info);
                    Ok(Some((info.root_path, info.src_tauri_path, info.tauri_config_path, out)))
                }
                Ok(None) => Ok(None),
                Err(e) => Err(e.to_string()),
            }
        });
        let observed = match res {
            Ok(Ok(Some((rootp, src, cfg, outp)))) => {
                let level = dirs.iter().position(|d| *d == rootp).map(|i| i + 1).unwrap_or(0);
                let config = match cfg.as_ref().and_then(|p| p.file_name()).and_then(|s| s.to_str()) {
                    Some("tauri.conf.json") => "json",
                    Some("tauri.conf.js") => "js",
                    Some(_) => "other",
                    None => "none",
                };
                let srcrel = src.strip_prefix(&rootp).map(|p| p.to_string_lossy().to_string()).unwrap_or_else(|_| "<outside>".to_string());
                json!({"found": true, "level": level, "config": config, "src": srcrel, "out": outp})
            }
            Ok(Ok(None)) => json!({"found": false, "level": 0, "config": "none", "src": "none", "out": "none"}),
            Ok(Err(e)) => json!({"found": false, "level": 0, "config": "error", "src": e, "out": "none"}),
            Err(_) => json!({"found": false, "level": 0, "config": "panic", "src": "none", "out": "none"}),
        };
        let _ = writeln!(out, "{}", json!({"event": "Scan", "case": format!("case{}", n), "chain": chain, "observed": observed}));
        let _ = std::fs::remove_dir_all(&root);
    }
    println!("{}", json!({"cases": n}));
    0
}
