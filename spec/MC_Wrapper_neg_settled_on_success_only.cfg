CONSTANT Variant = "settled_on_success_only"
SPECIFICATION Spec
INVARIANT ProtocolHolds
CHECK_DEADLOCK FALSE
