---------------------------- MODULE Trace_Wrapper ----------------------------
(* Trace validation for X03.  The trace is a concatenation of calls of real generated wrappers, each interpreted   *)
(* under one environment:   Call{kind, env}  Obs{what, arg}*                                                       *)
(* Every Obs must be the next observable event of Wrapper for that kind and environment, and a call may only be   *)
(* followed by the next Call (or the end of the trace) when the model has ended too.                              *)
EXTENDS Wrapper, Json, IOUtils, TLC

Rec == ndJsonDeserialize(IOEnv.TRACE)
VARIABLES l, kind, env, st, lost

Lost == St("lost", "none", "none")
Ended(s) == s.pc \in {"end", "fresh"}

TraceInit == l = 1 /\ kind = "plain" /\ env = [val |-> "ok", inv |-> "resolve", hook |-> [h \in HookNames |-> "absent"]]
             /\ st = St("fresh", "none", "none") /\ lost = FALSE

Report(why) == PrintT(<<"MISMATCH", l, "Wrapper", Rec[l].case, why>>)

TraceNext ==
    /\ l <= Len(Rec)
    /\ LET e == Rec[l] IN
       IF e.event = "Call"
       THEN /\ (IF Ended(st) \/ lost THEN TRUE
                ELSE Report(<<"previous call ended although the model expects", Advance(kind, env, st).ev>>))
            /\ kind' = e.kind /\ env' = e.env /\ st' = InitSt /\ lost' = FALSE
       ELSE LET r == Advance(kind, env, st) IN
            IF lost THEN UNCHANGED <<kind, env, st, lost>>
            ELSE IF st.pc # "end" /\ r.ev = [what |-> e.what, arg |-> e.arg]
                 THEN st' = r.st /\ UNCHANGED <<kind, env, lost>>
                 ELSE /\ Report(<<"observed", [what |-> e.what, arg |-> e.arg], "model expects", IF st.pc = "end" THEN Ev("nothing", "-") ELSE r.ev>>)
                      /\ lost' = TRUE /\ UNCHANGED <<kind, env, st>>
    /\ l' = l + 1
TraceSpec == TraceInit /\ [][TraceNext]_<<l, kind, env, st, lost>>
TraceAccepted ==
    LET d == TLCGet("stats").diameter IN
    IF d - 1 = Len(Rec) THEN PrintT(<<"TRACE-CONSUMED", Len(Rec)>>)
    ELSE PrintT(<<"TRACE-STUCK", d, Len(Rec)>>) /\ FALSE
=============================================================================
