"""C18 - a type mapping replaces the mapped type everywhere and nothing else.

TLC enumerates type expressions whose leaves are the source names of a type_mappings table
(Gen_Types, LeafMode = "mapped": plain names, the generic names DateTime<Utc>, Versioned<Uuid, Utc> and Stamped<chrono::Utc> (a path-qualified generic argument), and UserId which is ALSO
a serde struct of the project) under up to 2 contexts; every expression is generated at every site in
both modes WITH the mapping table and WITHOUT it.  TLC judges (Trace_Types):
  Mapped   : the emitted type denotes Shape(rust) with the leaf replaced by its target, and the
             mapped name is neither declared in types.ts nor referenced by the emitted type;
  SameDecl : an expression that mentions no mapped name is rendered identically (AST-equal)
             with and without the table.
"""
import json
import os
import shutil
import time

from lib import common as C
from lib import rustgen, tsprint, typecases

PROP = "C18"
TABLE = {"PathBuf": "string", "Versioned<Uuid, Utc>": "string", "DateTime<Utc>": "string", "UserId": "number", "Flag": "boolean", "Stamped<chrono::Utc>": "number"}
EXTRA_SRC = """
#[derive(Serialize, Deserialize)]
pub struct UserId {
    pub raw: u64,
}
"""


def has_mapped(t):
    if t["k"] == "mapped":
        return True
    return any(has_mapped(x) for x in rustgen.subterms(t))


def run(tier, seed, only=None):
    t0 = time.time()
    d = C.scratch("c18")
    verdicts = C.Verdicts(PROP)
    pairs, nex, nsim, g, s = typecases.generate_types(tier, seed, d, cfg="Gen_Types_mapped" if tier == "quick" else "Gen_Types_mappedx", simulate=False,
                                                      keyf=lambda p: rustgen.canon(p["t"]))
    subst_of = {rustgen.canon(p["t"]): p["s"] for p in pairs}
    types = [p["t"] for p in pairs]
    if only is not None:
        types = only
    # add the substituted twin T[M] of every T[N] (TLC computed it with TypeLang!Subst)
    have = {rustgen.canon(t): i for i, t in enumerate(types)}
    for t in list(types):
        if has_mapped(t):
            st = subst_of.get(rustgen.canon(t))
            if st is not None and rustgen.canon(st) not in have:
                have[rustgen.canon(st)] = len(types)
                types.append(st)
    with_map, fail1, runs1 = typecases.observe_types(d, types, extra_cfg={"type_mappings": TABLE}, extra_src=EXTRA_SRC)
    without, fail2, runs2 = typecases.observe_types(d, types, extra_cfg={"verbose": False}, extra_src=EXTRA_SRC)
    C.log("[c18] %d types, %d observations (%.0fs)" % (len(types), len(with_map), time.time() - t0))
    wo = {(o["idx"], o["site"], o["mode"]): o for o in without}
    events = []
    meta = []
    by_w = {(o["idx"], o["site"], o["mode"]): o for o in with_map}
    for o in with_map:
        t = types[o["idx"]]
        case = "%d/%s/%s" % (o["idx"], o["site"], o["mode"])
        if has_mapped(t):
            observed = o["ts"] if o["lang"] == "ts" else o["zod"]
            st = subst_of.get(rustgen.canon(t))
            if st is None:
                continue
            twin = by_w[(have[rustgen.canon(st)], o["site"], o["mode"])]
            events.append({"event": "Mapped", "case": case, "site": o["site"], "mode": o["mode"], "lang": o["lang"],
                           "rust": o["rust"], "ts": o["ts"], "zod": o["zod"], "pts": twin["ts"], "pzod": twin["zod"],
                           "declared": o["declared"], "referenced": typecases.referenced_names(observed)})
            meta.append(("Mapped", o))
        else:
            b = wo[(o["idx"], o["site"], o["mode"])]
            events.append({"event": "SameDecl", "case": case,
                           "a": o["ts"] if o["lang"] == "ts" else o["zod"],
                           "b": b["ts"] if b["lang"] == "ts" else b["zod"]})
            meta.append(("SameDecl", o))
    rejected = set()
    rej_same = []
    CH = 30000
    for ci in range(0, len(events), CH):
        part = os.path.join(d, "trace-%d.ndjson" % ci)
        C.write_ndjson(part, events[ci:ci + CH])
        consumed, mism, r = C.validate_trace("Trace_Types", "Trace_Types", part, timeout=3000, heap="12g")
        if not consumed:
            raise C.ToolError("trace not consumed")
        for m in mism:
            kind, o = meta[ci + m[1] - 1]
            if kind == "Mapped":
                rejected.add((o["idx"], o["site"], o["mode"]))
                o["gotkind"] = m[4]
            else:
                rej_same.append(o)
        os.remove(part)
    by = {(o["idx"], o["site"], o["mode"]): o for o in with_map}
    minimal, nonmin = typecases.minimal_rejections(types, rejected)
    for (idx, site, mode) in minimal:
        o = by[(idx, site, mode)]
        emitted = tsprint.show(o["ts"]) if o["lang"] == "ts" else tsprint.show_expr(o["zod"])
        mapped_declared = sorted(set(o["declared"]) & {"PathBuf", "Versioned", "Uuid", "Utc", "DateTime", "UserId", "Flag", "Stamped", "chrono"})
        sig = typecases.head_signature(types[idx])
        leafnames = sorted(_mapped_names(types[idx]))
        key = "site=%s mode=%s type=%s mapped=%s" % (site, mode, sig, ",".join(leafnames))
        verdicts.reject(key, "got=%s declared=%s" % (o.get("gotkind"), ",".join(mapped_declared)),
                        "with type_mappings %s, Rust type %s at site %s (mode %s) is emitted as `%s`; mapped names still declared in types.ts: %s"
                        % (json.dumps({k: TABLE[k] for k in leafnames}), o["spelling"], site, mode, emitted, mapped_declared),
                        {"type": types[idx], "site": site, "mode": mode, "rust": o["spelling"], "emitted": emitted})
    # the same mapped names written path-qualified (std::path::PathBuf, chrono::DateTime<Utc>, crate::UserId,
    # ext::Versioned<Uuid, Utc>): a path-qualified type is the type its last segment names, so the mapping applies -
    # every expression of depth <= 1, judged against the rendering of its substituted twin
    nqual = 0
    if only is None:
        def depth(t):
            sub = rustgen.subterms(t)
            return 0 if not sub else 1 + max(depth(x) for x in sub)
        qidx = [i for i, t in enumerate(types) if has_mapped(t) and depth(t) <= 1 and subst_of.get(rustgen.canon(t)) is not None]
        rustgen.QUALIFIED_SPELLING = True
        try:
            q_with, qfail, qruns = typecases.observe_types(d, [types[i] for i in qidx], extra_cfg={"type_mappings": TABLE}, extra_src=EXTRA_SRC)
        finally:
            rustgen.QUALIFIED_SPELLING = False
        runs1 += qruns
        qevents = []
        qmeta = []
        for o in q_with:
            oi = qidx[o["idx"]]
            t = types[oi]
            twin = by_w[(have[rustgen.canon(subst_of[rustgen.canon(t)])], o["site"], o["mode"])]
            observed = o["ts"] if o["lang"] == "ts" else o["zod"]
            qevents.append({"event": "Mapped", "case": "qualified/%d/%s/%s" % (oi, o["site"], o["mode"]), "site": o["site"], "mode": o["mode"], "lang": o["lang"],
                            "rust": o["rust"], "ts": o["ts"], "zod": o["zod"], "pts": twin["ts"], "pzod": twin["zod"],
                            "declared": o["declared"], "referenced": typecases.referenced_names(observed)})
            qmeta.append((oi, o))
        nqual = len(qevents)
        if qevents:
            part = os.path.join(d, "trace-q.ndjson")
            C.write_ndjson(part, qevents)
            consumed, mism, r = C.validate_trace("Trace_Types", "Trace_Types", part, timeout=3000, heap="12g")
            if not consumed:
                raise C.ToolError("trace not consumed")
            for m in mism:
                oi, o = qmeta[m[1] - 1]
                emitted = tsprint.show(o["ts"]) if o["lang"] == "ts" else tsprint.show_expr(o["zod"])
                leafnames = sorted(_mapped_names(types[oi]))
                verdicts.reject("qualified site=%s mode=%s type=%s mapped=%s" % (o["site"], o["mode"], typecases.head_signature(types[oi]), ",".join(leafnames)),
                                "got=%s" % m[4],
                                "with type_mappings %s, Rust type %s (path-qualified spelling) at site %s (mode %s) is emitted as `%s`"
                                % (json.dumps({k: TABLE[k] for k in leafnames}), o["spelling"], o["site"], o["mode"], emitted),
                                {"type": types[oi], "site": o["site"], "mode": o["mode"], "rust": o["spelling"], "emitted": emitted, "family": "qualified"})
    for o in rej_same:
        verdicts.reject("samedecl site=%s mode=%s type=%s" % (o["site"], o["mode"], o["key"]), "differs",
                        "a type that mentions no mapped name (%s) is rendered differently with and without the mapping table" % o["spelling"],
                        {"type": types[o["idx"]], "site": o["site"], "mode": o["mode"]})
    rc = verdicts.finish()
    samples = [{"rust": o["spelling"], "site": o["site"], "mode": o["mode"],
                "emitted": tsprint.show(o["ts"]) if o["lang"] == "ts" else tsprint.show_expr(o["zod"])}
               for o in with_map[:: max(1, len(with_map) // 6)][:6]]
    C.write_evidence(PROP, tier, seed, "exploration", {
        "evaluations": len(events) + nqual,
        "path_qualified_evaluations": nqual,
        "distinct_nontrivial": len({(o["key"], o["site"], o["mode"]) for o in with_map if has_mapped(types[o["idx"]])}),
        "rule": "one evaluation = one type expression at one site in one mode, generated with and without the "
                "type_mappings table %s and judged by TLC (Mapped / SameDecl); non-trivial = the expression contains a mapped name"
                % json.dumps(TABLE),
        "samples": samples,
        "types": len(types),
        "generator_runs": runs1 + runs2,
        "traces_validated_against_impl": len(events),
        "rejected_observations": len(rejected) + len(rej_same),
        "minimal_rejected": len(minimal),
        "known_findings_matched": len(verdicts.known_hit),
        "exhaustive": tier == "thorough",
    }, time.time() - t0, assumptions=["TS-subset parser faithful", "mapping targets limited to string/number/boolean as the property states"],
        violations=len(verdicts.violations))
    shutil.rmtree(d, ignore_errors=True)
    return rc


def _mapped_names(t):
    if t["k"] == "mapped":
        return {t["n"]}
    out = set()
    for x in rustgen.subterms(t):
        out |= _mapped_names(x)
    return out


def replay(path, seed):
    obj = json.load(open(path))
    t = obj["case"]["type"]
    return run("thorough", seed, only=[t] + rustgen.all_subterms(t))
