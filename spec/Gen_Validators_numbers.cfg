INIT Init
NEXT Next
CONSTANT Mode = "numbers"
INVARIANT Emit
CHECK_DEADLOCK FALSE
