"""C14 - re-running with nothing changed rewrites nothing; --force always regenerates.

Model checking : Pipeline.tla - C14_NoChangeNoWrite (action property) and C14_ForceRegenerates for every
                 interleaving in the bound, every iteration order (NOrders = 2), both drivers, intended and
                 as-built knobs (incl. the knob FlagOverwritesConfig).
Replay         : (a) TLC's repeat history (6 consecutive non-forced runs) on projects with 1..6 command files,
                     fresh process per run, CLI and build driver, under strace, comparing bytes / mtime / inode
                     of every file of the output directory;
                 (b) TLC-enumerated force histories: an unforced generation, one cache-state manipulation
                     (none = matching, lose = absent, corrupt, edit = mismatching, loss of a binding), then a
                     run with every combination of --force and force:true.
Trace validation: Trace_Pipeline.tla (no mutation when clean and unforced; forced => every expected file
                 rewritten and current).
"""
import json
import os
import random
import shutil
import time

from lib import common as C
from lib import pipecheck as P

PROP = "C14"


def run(tier, seed, only=None):
    t0 = time.time()
    d = C.scratch("c14")
    verdicts = C.Verdicts(PROP)
    mc, states, transitions = P.model_check()
    cases = []
    if only is not None:
        cases = only
    else:
        for drv in ("cli", "build"):
            rep, _ = P.gen_histories("Gen_Pipeline_repeat_%s" % drv)
            nreps = 1 if tier == "quick" else 5
            for nf in range(1, 7):
                for k in range(nreps):
                    h = rep[0]["h"]
                    cases.append({"id": "%s-repeat-f%d-%d" % (drv, nf, k), "h": h, "ev": True, "viz": (nf % 2 == 0), "nfiles": nf, "driver": drv})
            # the same repetition for a project that emits no events (no events.ts, empty events hash)
            for nf in (1, 3):
                cases.append({"id": "%s-repeat-noev-f%d" % (drv, nf), "h": rep[0]["h"], "ev": False, "viz": (nf == 3), "nfiles": nf, "driver": drv})
            # ... and for a project in which one source file is reachable through two paths (a symbolic link)
            for k in range(2 if tier == "quick" else 6):
                cases.append({"id": "%s-repeat-symlink-%d" % (drv, k), "h": rep[0]["h"], "ev": True, "viz": False, "nfiles": 2, "driver": drv, "symlink": True})
            # ... and with a mapping table whose keys differ only in their path qualifier (fresh processes, fresh hash seeds)
            for k in range(4 if tier == "quick" else 12):
                cases.append({"id": "%s-repeat-qualmaps-%d" % (drv, k), "h": rep[0]["h"], "ev": True, "viz": False, "nfiles": 2, "driver": drv, "qualmaps": True})
            fh, _ = P.gen_histories("Gen_Pipeline_force_%s" % drv)
            for i, h in enumerate(fh):
                # tamper with a binding before the last run so that "rewritten" is observable in content
                hh = list(h["h"])
                cases.append({"id": "%s-force-%d" % (drv, i), "h": hh, "ev": h["ev"], "viz": h["viz"], "driver": drv})
        # what a forced run leaves behind: forced run (first, or after a generation and one cache-state manipulation)
        # followed by a plain run, which must find everything current and write nothing
        if only is None:
            for drv in ("cli", "build"):
                for fam in ("forceplain2", "forceplain3"):
                    hp, _ = P.gen_histories("Gen_Pipeline_%s_%s" % (fam, drv))
                    if tier == "quick":
                        def env_kind(h):
                            return [x for x in h["h"] if x[0] not in ("run", "end")]
                        hp = [h for h in hp if all(x[0] in ("edit", "corrupt", "tamper") or (x[0] == "lose" and x[1] == "cache") for x in env_kind(h))]
                    for i, h in enumerate(hp):
                        cases.append({"id": "%s-%s-%d" % (drv, fam, i), "h": list(h["h"]), "ev": h["ev"], "viz": h["viz"], "cmds": h.get("cmds", True), "driver": drv})
    allev, info = P.replay_all(d, cases)
    mism = P.validate(d, allev)
    first = P.first_mismatch_per_case(mism, PROP)
    by_id = {c["id"]: c for c in cases}
    for case, (line, what) in sorted(first.items()):
        c = by_id[case]
        ridx = P.run_index_of_line(info, case, line)
        upto = P.prefix_upto_run(c["h"], ridx)
        kind = what[0] if isinstance(what, list) else str(what)
        detail = what[1:] if isinstance(what, list) else ""
        if "repeat" in case:
            key = "driver=%s repeat run=%d what=%s" % (c["driver"], ridx + 1, kind)
            obs = _names(detail)
        else:
            key = "driver=%s hist=%s what=%s" % (c["driver"], P.hist_key(c["h"], upto), kind)
            obs = _names(detail)
        verdicts.reject(key, obs, "%s: %s %s (history %s, %d command files)" % (c["driver"], kind, detail, P.hist_key(c["h"], upto), c.get("nfiles", 2)),
                        {"history": c["h"], "ev": c.get("ev", True), "viz": c.get("viz", False), "driver": c["driver"], "nfiles": c.get("nfiles", 2)})
    drift = []
    nruns = 0
    for cid, inf in info.items():
        for i, cm in enumerate(inf["cmp"]):
            nruns += 1
            if cm["predicted"] != cm["real"]:
                drift.append({"case": cid, "run": i, "predicted": cm["predicted"], "real": cm["real"]})
    rc = verdicts.finish()
    C.write_evidence(PROP, tier, seed, "model_checking", {
        "states": states, "transitions": transitions,
        "traces_validated_against_impl": len(cases),
        "samples": [{"id": c["id"], "history": P.hist_key(c["h"]), "nfiles": c.get("nfiles", 2)} for c in cases[:: max(1, len(cases) // 6)][:6]],
        "model_checking_runs": mc, "real_runs": nruns, "trace_events": len(allev),
        "rejected_behaviours": len(first), "known_findings_matched": len(verdicts.known_hit),
        "asbuilt_drift": {"runs_compared": nruns, "mismatching": len(drift), "examples": drift[:6]},
        "rule": "repeat histories: 6 consecutive non-forced runs x 1..6 command files x {cli, build} (x%d repetitions), each run a fresh "
                "process; force histories: TLC enumeration (generation; <=1 of {nothing, lose/corrupt cache, edit, lose binding, toggles}; run with "
                "each of the 4 flag/config combinations)" % (1 if tier == "quick" else 5),
        "exhaustive": True,
    }, time.time() - t0, assumptions=["strace sees every file-mutating syscall", "mtime/inode/bytes of the output directory compared before/after each run"],
        violations=len(verdicts.violations))
    shutil.rmtree(d, ignore_errors=True)
    return rc


def _names(detail):
    s = str(detail)
    names = sorted(set(n for n in (".write_test", ".typecache", "types.ts", "commands.ts", "events.ts", "index.ts",
                                   "dependency-graph.txt", "dependency-graph.dot") if n in s))
    return ",".join(names) if names else s[:80]


def replay(path, seed):
    obj = json.load(open(path))
    c = obj["case"]
    return run("quick", seed, only=[{"id": "%s-replay-0" % c["driver"], "h": c["history"], "ev": c["ev"], "viz": c["viz"],
                                     "driver": c["driver"], "nfiles": c.get("nfiles", 2)}])
