------------------------------ MODULE Pipeline ------------------------------
(***************************************************************************)
(* One generation run of tauri-typegen as a phase machine over an abstract *)
(* file system, together with the environment that edits sources, loses    *)
(* files and injects faults between and during runs.                       *)
(*                                                                         *)
(* Code anchors (one action per critical section):                         *)
(*   CLI   : src/bin/cargo-tauri-typegen.rs run_generate                   *)
(*   build : src/build/mod.rs BuildSystem::run_generation/generate_bindings*)
(*           src/build/output_manager.rs finalize_generation               *)
(*   cache : src/build/generation_cache.rs needs_regeneration / save       *)
(*   writes: src/generators/*/generator.rs generate_models via FileWriter  *)
(*                                                                         *)
(* Two layers:                                                             *)
(*   as-built  : Init/Next, parameterised by knobs (CONSTANTS) that say     *)
(*               what the code does: which edit classes reach the hash,    *)
(*               whether key / output depend on the iteration order,       *)
(*               whether a cache hit looks at the files, where the cache   *)
(*               record is written, what the build driver's finalisation   *)
(*               does.                                                     *)
(*   contract  : the predicates C08_*, C13_*, C14_*, C16_*, C17_* -- what   *)
(*               every implementation must satisfy whatever its mechanism. *)
(* TLC checks the contract predicates as invariants / action properties of *)
(* the as-built layer.  With the `intended' knob setting they all hold     *)
(* (the contract is satisfiable and every action is exercised); with a     *)
(* defective knob setting TLC returns the shortest history of the defect.  *)
(***************************************************************************)
EXTENDS Naturals, Sequences, FiniteSets, TLC

CONSTANTS
    Classes,             \* output-affecting edit classes (one representative edit each)
    HashedClasses,       \* KNOB: classes whose edits change the cache key
    EventsHashed,        \* KNOB: adding/removing events changes the cache key
    VizHashed,           \* KNOB: switching visualize_deps on/off changes the cache key
    FlagOverwritesConfig,\* KNOB: an absent --force flag overwrites `force: true' of the configuration file
    NOrders,             \* number of distinguishable iteration orders (1 = nothing to permute)
    KeyDependsOnOrder,   \* KNOB: cache key computed over commands in discovery order
    OutputDependsOnOrder,\* KNOB: generated text depends on discovery / map order
    CacheLooksAtFiles,   \* KNOB: a cache hit also requires the vouched files to exist
    CacheSavedLast,      \* KNOB: .typecache is written after every other file of the run
    CacheDroppedFirst,   \* KNOB: a regenerating run removes the old .typecache before it writes anything
    Drivers,             \* subset of {"cli", "build"}
    BuildCleansOnEmpty,  \* KNOB: build driver finalises with an empty list on "no commands"
    BuildProbes,         \* KNOB: build driver creates+removes .write_test on every run
    MaxEnv, MaxRuns, MaxFaults     \* bounds per behaviour

Bindings == {"types", "commands", "events", "index",     \* the generated .ts files
             "graphtxt", "graphdot"}                     \* dependency-graph.txt / .dot (visualize_deps)
Orders == 1..NOrders

Absent == [p |-> FALSE]

VARIABLES
    attrs,      \* [Classes -> 0..1] : sources + configuration, abstracted to per-class versions
    hasCmds,    \* the project contains at least one command
    hasEvents,  \* the project emits at least one event (events.ts is expected)
    viz,        \* visualize_deps is configured (the two graph files are expected)
    out,        \* [Bindings -> Absent | [p, a, ev, o, g]] : binding files in the output directory
    cache,      \* Absent | [p, key, ex, g] : the .typecache record
    probe,      \* "absent" | "foreign" | "tool" : the file .write_test in the output directory
    gen,        \* generation counter (number of runs started)
    run,        \* the run in progress; run.pc = "idle" between runs
    nenv, nfaults,
    lost,       \* binding files the ENVIRONMENT removed since they were last written
    clean,      \* the last generation succeeded and nothing was edited or lost since
    hist        \* history variable (hidden by VIEW), printed for replay / counterexamples

vars == <<attrs, hasCmds, hasEvents, viz, out, cache, probe, gen, run, nenv, nfaults, lost, clean, hist>>
View == <<attrs, hasCmds, hasEvents, viz, out, cache, probe, gen, run, nenv, nfaults, lost, clean>>

Idle == [pc |-> "idle"]

Expected == IF hasCmds
            THEN {"types", "commands", "index"} \cup (IF hasEvents THEN {"events"} ELSE {})
                 \cup (IF viz THEN {"graphtxt", "graphdot"} ELSE {})
            ELSE {}

\* the as-built cache key: hashed classes, (un)hashed event presence, discovery order
KeyOf(a, ev, o) == [h |-> [c \in HashedClasses |-> a[c]],
                    ev |-> IF EventsHashed THEN ev ELSE FALSE,
                    vz |-> IF VizHashed THEN viz ELSE FALSE,
                    o |-> IF KeyDependsOnOrder THEN o ELSE 1]

Content(o) == [p |-> TRUE, a |-> attrs, ev |-> hasEvents,
               o |-> IF OutputDependsOnOrder THEN o ELSE 1, g |-> gen]

\* a truncated file: it exists, but holds nothing a generation would write
Trunc == [p |-> TRUE, a |-> [c \in Classes |-> 2], ev |-> FALSE, o |-> 1, g |-> 0]

WriteSeq == (IF hasEvents THEN <<"types", "commands", "events", "index">>
             ELSE <<"types", "commands", "index">>)
            \o (IF viz THEN <<"graphtxt", "graphdot">> ELSE <<>>)

-----------------------------------------------------------------------------
(* Environment                                                              *)

EnvStep(what) ==
    /\ run.pc = "idle" /\ nenv < MaxEnv
    /\ nenv' = nenv + 1 /\ clean' = FALSE
    /\ hist' = Append(hist, what)
    /\ UNCHANGED <<gen, run, nfaults>>

\* edit classes that change an emit call: possible only while the project emits events
\* ("event_struct": a field added to a struct that reaches the bindings only as an event payload)
EventClasses == {"event_payload", "event_renamed", "event_added", "event_struct"}
Edit(c) ==
    /\ c \in EventClasses => hasEvents
    /\ EnvStep(<<"edit", c>>)
    /\ attrs' = [attrs EXCEPT ![c] = 1 - @]
    /\ UNCHANGED <<hasCmds, hasEvents, viz, out, cache, probe, lost>>

ToggleEvents ==
    /\ EnvStep(<<"events", ~hasEvents>>)
    /\ hasEvents' = ~hasEvents
    /\ UNCHANGED <<attrs, hasCmds, viz, out, cache, probe, lost>>

ToggleViz ==
    /\ EnvStep(<<"viz", ~viz>>)
    /\ viz' = ~viz
    /\ UNCHANGED <<attrs, hasCmds, hasEvents, out, cache, probe, lost>>

ToggleCommands ==
    /\ EnvStep(<<"commands", ~hasCmds>>)
    /\ hasCmds' = ~hasCmds
    /\ UNCHANGED <<attrs, hasEvents, viz, out, cache, probe, lost>>

LoseFile(f) ==
    /\ out[f].p
    /\ EnvStep(<<"lose", f>>)
    /\ out' = [out EXCEPT ![f] = Absent]
    /\ lost' = lost \cup {f}
    /\ UNCHANGED <<attrs, hasCmds, hasEvents, viz, cache, probe>>

LoseCache ==
    /\ cache.p
    /\ EnvStep(<<"lose", "cache">>)
    /\ cache' = Absent
    /\ UNCHANGED <<attrs, hasCmds, hasEvents, viz, out, probe, lost>>

\* .typecache overwritten with something that is not a cache record of any generation
CorruptKey == [h |-> [c \in HashedClasses |-> 7], ev |-> FALSE, vz |-> FALSE, o |-> 0]
CorruptCache ==
    /\ cache.p /\ cache.key # CorruptKey
    /\ EnvStep(<<"corrupt", "cache">>)
    /\ cache' = [p |-> TRUE, key |-> CorruptKey, ex |-> {}, g |-> 0]
    /\ UNCHANGED <<attrs, hasCmds, hasEvents, viz, out, probe, lost>>

PlaceForeignProbe ==
    /\ probe = "absent"
    /\ EnvStep(<<"place", "probe">>)
    /\ probe' = "foreign"
    /\ UNCHANGED <<attrs, hasCmds, hasEvents, viz, out, cache, lost>>

Env == \/ \E c \in Classes : Edit(c)
       \/ ToggleEvents \/ ToggleCommands \/ ToggleViz
       \/ \E f \in Bindings : LoseFile(f)
       \/ LoseCache \/ CorruptCache \/ PlaceForeignProbe

-----------------------------------------------------------------------------
(* A run (tool steps)                                                       *)

NoFault == [kind |-> "none", at |-> "none"]
\* failopen : the open fails (EACCES, a directory in the way): file untouched, error returned
\* failwrite: the write after the truncating open fails (ENOSPC): file left truncated, error returned
\* crash    : the process dies after the truncating open
Faults == {NoFault} \cup {[kind |-> k, at |-> f] : k \in {"failopen", "failwrite", "crash"}, f \in Bindings \cup {"cache"}}

Ended(r, status, skipped) == [r EXCEPT !.pc = "ended", !.status = status, !.skipped = skipped]

\* flag: --force given on the command line (CLI only); cfg: `force: true' in the configuration.
\* run.forced is what the code ACTS on; run.wantForced is what the property demands.
StartRun(d, flag, cfg, fault) ==
    /\ run.pc = "idle" /\ gen < MaxRuns
    /\ (fault # NoFault => nfaults < MaxFaults)
    /\ (d = "build" => ~flag)
    /\ gen' = gen + 1
    /\ run' = [pc |-> "loaded", driver |-> d,
               forced |-> IF FlagOverwritesConfig /\ d = "cli" THEN flag ELSE flag \/ cfg,
               wantForced |-> flag \/ cfg, flag |-> flag, cfg |-> cfg, ord |-> 1, i |-> 1,
               fault |-> fault, wrote |-> {}, failed |-> FALSE, wasClean |-> clean,
               status |-> "running", skipped |-> FALSE]
    /\ nfaults' = IF fault = NoFault THEN nfaults ELSE nfaults + 1
    /\ hist' = Append(hist, <<"run", d, flag, cfg, fault.kind, fault.at>>)
    /\ UNCHANGED <<attrs, hasCmds, hasEvents, viz, out, cache, probe, nenv, lost, clean>>

\* WalkAndParse + Extract: the HashMap iteration order is chosen here
Analyse(o) ==
    /\ run.pc = "loaded"
    /\ run' = [run EXCEPT !.pc = "analysed", !.ord = o]
    /\ UNCHANGED <<attrs, hasCmds, hasEvents, viz, out, cache, probe, gen, nenv, nfaults, lost, clean, hist>>

\* commands.is_empty(): the CLI warns and returns Ok without touching anything; the build
\* driver goes on to finalize_generation(&[]) whose cleanup removes every generated-pattern
\* file that is not in the (empty) list: types.ts, commands.ts, index.ts -- events.ts and
\* .typecache do not match the patterns and stay.
NoCommands ==
    /\ run.pc = "analysed" /\ ~hasCmds
    /\ IF run.driver = "build" /\ BuildCleansOnEmpty
       THEN /\ out' = [f \in Bindings |-> IF f \in {"types", "commands", "index"} THEN Absent ELSE out[f]]
            /\ run' = [run EXCEPT !.pc = "finalise"]
       ELSE /\ run' = Ended(run, "ok", FALSE)
            /\ UNCHANGED out
    /\ hist' = IF run'.pc = "ended" THEN Append(hist, <<"end", "ok", FALSE>>) ELSE hist
    /\ UNCHANGED <<attrs, hasCmds, hasEvents, viz, cache, probe, gen, nenv, nfaults, lost, clean>>

CacheHitFor(o) ==
    /\ cache.p
    /\ cache.key = KeyOf(attrs, hasEvents, o)
    /\ (CacheLooksAtFiles => \A f \in cache.ex : out[f].p)
CacheHit == CacheHitFor(run.ord)

\* needs_regeneration == false: "TypeScript bindings are up to date"
Skip ==
    /\ run.pc = "analysed" /\ hasCmds /\ ~run.forced /\ CacheHit
    /\ IF run.driver = "build"
       THEN run' = [run EXCEPT !.pc = "finalise", !.skipped = TRUE] /\ UNCHANGED hist
       ELSE run' = Ended(run, "ok", TRUE) /\ hist' = Append(hist, <<"end", "ok", TRUE>>)
    /\ UNCHANGED <<attrs, hasCmds, hasEvents, viz, out, cache, probe, gen, nenv, nfaults, lost, clean>>

Proceed ==
    /\ run.pc = "analysed" /\ hasCmds /\ (run.forced \/ ~CacheHit)
    /\ run' = [run EXCEPT !.pc = IF CacheSavedLast THEN "writing" ELSE "saving", !.i = 1]
    /\ cache' = IF CacheDroppedFirst THEN Absent ELSE cache
    /\ UNCHANGED <<attrs, hasCmds, hasEvents, viz, out, probe, gen, nenv, nfaults, lost, clean, hist>>

\* FileWriter::write_typescript_file for the i-th file of the sequence
WriteFile ==
    /\ run.pc = "writing" /\ run.i <= Len(WriteSeq)
    /\ LET f == WriteSeq[run.i] IN
       IF run.fault.at = f /\ run.fault.kind \in {"failopen", "failwrite"}
       THEN \* the write fails: `?' propagates to exit(1); nothing further is written
            /\ run' = Ended([run EXCEPT !.failed = TRUE], "err", FALSE)
            /\ hist' = Append(hist, <<"end", "err", FALSE>>)
            /\ out' = IF run.fault.kind = "failwrite" THEN [out EXCEPT ![f] = Trunc] ELSE out
            /\ UNCHANGED lost
       ELSE IF run.fault.at = f /\ run.fault.kind = "crash"
       THEN \* the process dies at this write, after the file was truncated
            /\ out' = [out EXCEPT ![f] = Trunc]
            /\ run' = Ended(run, "killed", FALSE)
            /\ hist' = Append(hist, <<"end", "killed", FALSE>>)
            /\ UNCHANGED lost
       ELSE /\ out' = [out EXCEPT ![f] = Content(run.ord)]
            /\ lost' = lost \ {f}
            /\ run' = [run EXCEPT !.i = @ + 1, !.wrote = @ \cup {f}]
            /\ UNCHANGED hist
    /\ UNCHANGED <<attrs, hasCmds, hasEvents, viz, cache, probe, gen, nenv, nfaults, clean>>

AfterWrites ==
    /\ run.pc = "writing" /\ run.i > Len(WriteSeq)
    /\ run' = [run EXCEPT !.pc = IF CacheSavedLast THEN "saving" ELSE "finalise"]
    /\ UNCHANGED <<attrs, hasCmds, hasEvents, viz, out, cache, probe, gen, nenv, nfaults, lost, clean, hist>>

\* GenerationCache::save -- a failure is only a warning
SaveCache ==
    /\ run.pc = "saving"
    /\ LET next == IF CacheSavedLast THEN "finalise" ELSE "writing" IN
       IF run.fault.at = "cache" /\ run.fault.kind \in {"failopen", "failwrite"}
       THEN /\ run' = [run EXCEPT !.pc = next]
            /\ cache' = IF run.fault.kind = "failwrite" THEN Absent ELSE cache   \* truncated = unreadable
            /\ UNCHANGED hist
       ELSE IF run.fault.at = "cache" /\ run.fault.kind = "crash"
       THEN /\ cache' = Absent
            /\ run' = Ended(run, "killed", FALSE)
            /\ hist' = Append(hist, <<"end", "killed", FALSE>>)
       ELSE /\ cache' = [p |-> TRUE, key |-> KeyOf(attrs, hasEvents, run.ord), ex |-> Expected, g |-> gen]
            /\ run' = [run EXCEPT !.pc = next, !.wrote = @ \cup {"cache"}]
            /\ UNCHANGED hist
    /\ UNCHANGED <<attrs, hasCmds, hasEvents, viz, out, probe, gen, nenv, nfaults, lost, clean>>

\* build driver: OutputManager::prepare_output_directory creates and removes .write_test
ProbeCreate ==
    /\ run.pc = "finalise" /\ run.driver = "build" /\ BuildProbes
    /\ probe' = "tool"
    /\ run' = [run EXCEPT !.pc = "probed"]
    /\ UNCHANGED <<attrs, hasCmds, hasEvents, viz, out, cache, gen, nenv, nfaults, lost, clean, hist>>

ProbeRemove ==
    /\ run.pc = "probed"
    /\ probe' = "absent"
    /\ run' = Ended(run, "ok", run.skipped)
    /\ hist' = Append(hist, <<"end", "ok", run.skipped>>)
    /\ UNCHANGED <<attrs, hasCmds, hasEvents, viz, out, cache, gen, nenv, nfaults, lost, clean>>

Finalise ==
    /\ run.pc = "finalise" /\ ~(run.driver = "build" /\ BuildProbes)
    /\ run' = Ended(run, "ok", run.skipped)
    /\ hist' = Append(hist, <<"end", "ok", run.skipped>>)
    /\ UNCHANGED <<attrs, hasCmds, hasEvents, viz, out, cache, probe, gen, nenv, nfaults, lost, clean>>

\* the process has exited; bookkeeping of the contract's `clean' flag
Exit ==
    /\ run.pc = "ended"
    /\ clean' = IF run.status # "ok" \/ ~hasCmds THEN FALSE
                ELSE IF run.skipped THEN clean
                ELSE "cache" \in run.wrote        \* a generation whose record could not be saved is not remembered
    /\ run' = Idle
    /\ UNCHANGED <<attrs, hasCmds, hasEvents, viz, out, cache, probe, gen, nenv, nfaults, lost, hist>>

Tool ==
    \/ \E d \in Drivers, flag \in BOOLEAN, cfg \in BOOLEAN, ft \in Faults : StartRun(d, flag, cfg, ft)
    \/ \E o \in Orders : Analyse(o)
    \/ NoCommands \/ Skip \/ Proceed \/ WriteFile \/ AfterWrites \/ SaveCache
    \/ ProbeCreate \/ ProbeRemove \/ Finalise \/ Exit

Init ==
    /\ attrs = [c \in Classes |-> 0]
    /\ hasCmds \in BOOLEAN /\ hasEvents \in BOOLEAN /\ viz \in BOOLEAN
    /\ out = [f \in Bindings |-> Absent]
    /\ cache = Absent /\ probe = "absent"
    /\ gen = 0 /\ run = Idle
    /\ nenv = 0 /\ nfaults = 0
    /\ lost = {} /\ clean = FALSE
    /\ hist = <<>>

Next == Env \/ Tool
Spec == Init /\ [][Next]_vars

-----------------------------------------------------------------------------
(* CONTRACT LAYER                                                           *)

Current(f) == out[f].p /\ out[f].a = attrs /\ out[f].ev = hasEvents

RunEndedOk == run.pc = "ended" /\ run.status = "ok"

\* C08: a non-forced run that reports success (incl. "up to date") leaves every file a forced
\* generation would write present and current
C08_SuccessMeansCurrent ==
    (RunEndedOk /\ ~run.wantForced) => \A f \in Expected : Current(f)

\* C14 (second sentence): --force always regenerates
C14_ForceRegenerates ==
    (RunEndedOk /\ run.wantForced /\ hasCmds)
        => /\ \A f \in Expected : Current(f)
           /\ Expected \subseteq run.wrote

\* C13: what is written does not depend on the iteration order the run happened to see
C13_OrderIndependent == \A f \in Bindings : out[f].p => out[f].o = 1

\* C14 (first sentence): a non-forced run on an unchanged, successfully generated project
\* touches nothing in the output directory
C14_NoChangeNoWrite ==
    [][ (run.pc # "idle" /\ run.wasClean /\ ~run.wantForced)
            => (out' = out /\ cache' = cache /\ probe' = probe) ]_vars

\* C16: .write_test is not one of the tool's reserved names: never created, a foreign one never touched
C16_ProbeUntouched == [][ probe' = probe \/ run.pc = "idle" ]_vars

\* C17: a failed write of a binding file is reported as failure
C17_FailureReported == (run.pc = "ended" /\ run.failed) => run.status # "ok"

\* C17: at no point -- mid-run and after a crash included -- does the cache record vouch
\* (i.e. would a non-forced run report "up to date") for files that are not present and current
WouldSkip == hasCmds /\ \E o \in Orders : CacheHitFor(o)
C17_CacheNotNewer == WouldSkip => \A f \in Expected : Current(f)

-----------------------------------------------------------------------------
(* Replay support                                                           *)
Done == run.pc = "idle" /\ gen = MaxRuns
=============================================================================
