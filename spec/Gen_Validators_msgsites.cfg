INIT Init
NEXT Next
CONSTANT Mode = "msgsites"
INVARIANT Emit
CHECK_DEADLOCK FALSE
