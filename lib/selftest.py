"""Binding self-tests (DESIGN section 4): for every trace specification a small accepted trace is corrupted in one
recorded field (or one event is dropped) and TLC must reject exactly the corrupted records.  A trace spec that
accepted a corrupted trace would constrain nothing; the check that owns it fails with a tool error."""
import copy
import json
import os

from lib import common as C


def _run(module, events, d, name):
    p = os.path.join(d, "selftest-%s.ndjson" % name)
    C.write_ndjson(p, events)
    consumed, mism, r = C.validate_trace(module, module, p, timeout=600)
    os.remove(p)
    if not consumed:
        raise C.ToolError("self-test trace of %s not consumed:\n%s" % (module, r.out[-1500:]))
    return sorted(set(m[1] for m in mism))


def _expect(module, events, bad_lines, d, name):
    got = _run(module, events, d, name)
    if got != sorted(bad_lines):
        raise C.ToolError("binding self-test of %s failed: rejected lines %s, expected %s" % (module, got, sorted(bad_lines)))
    return {"spec": module, "events": len(events), "corruptions_rejected": len(bad_lines), "uncorrupted_accepted": len(events) - len(bad_lines)}


def names(d):
    cs = lambda s: list(s)
    good = {"event": "Key", "case": "st", "kind": "field", "rule": "camelCase", "ident": cs("user_name"), "attr": "none",
            "hasRename": False, "rename": [], "skip": False, "mode": "none", "present": True, "emitted": cs("userName"), "quoted": False, "note": ""}
    bad1 = dict(good, emitted=cs("user_name"))
    bad2 = dict(good, present=False)
    v_good = dict(good, kind="variant", rule="snake_case", ident=cs("InProgress"), emitted=cs("in_progress"))
    v_bad = dict(v_good, emitted=cs("InProgress"))
    arg = {"event": "ArgKeys", "case": "st", "mode": "none", "pcase": "camelCase",
           "params": [{"ident": cs("user_id"), "class": "value", "optional": True}, {"ident": cs("app"), "class": "injected", "optional": False}],
           "spellings": ["u8", "AppHandle"], "declared": [{"key": cs("userId"), "omittable": True}], "delivered": [cs("userId")]}
    arg_bad = dict(arg, delivered=[cs("userId"), cs("app")])
    syn = {"event": "Syntax", "case": "st", "file": "types.ts", "errors": [], "names": [cs("User")], "keys": [{"cs": cs("user-id"), "quoted": True}]}
    syn_bad = dict(syn, keys=[{"cs": cs("user-id"), "quoted": False}])
    return _expect("Trace_Names", [good, bad1, bad2, v_good, v_bad, arg, arg_bad, syn, syn_bad], [2, 3, 5, 7, 9], d, "names")


def attrs(d):
    none = {"p": False, "min": "none", "max": "none", "hasMsg": False, "msg": []}
    nf = {"p": False, "hasMsg": False, "msg": []}
    v = {"length": {"p": True, "min": "1", "max": "10", "hasMsg": True, "msg": list("bad")}, "range": none, "email": {"p": True, "hasMsg": False, "msg": []}, "url": nf}
    obs = [{"m": "email", "v": "none", "hasMsg": False, "msg": []}, {"m": "min", "v": "1", "hasMsg": True, "msg": list("bad")},
           {"m": "max", "v": "10", "hasMsg": True, "msg": list("bad")}]
    good = {"event": "Constraint", "case": "st", "tc": "string", "v": v, "observed": obs}
    bad1 = dict(good, observed=obs[1:])                                   # a constraint silently dropped
    bad2 = dict(good, observed=[obs[0], dict(obs[1], v="2"), obs[2]])       # bound changed
    bad3 = dict(good, observed=[obs[0], dict(obs[1], msg=list("ba")), obs[2]])  # message cut
    sib = {"event": "NoValidators", "case": "st.sib", "observed": []}
    sib_bad = {"event": "NoValidators", "case": "st.sib", "observed": [obs[1]]}
    return _expect("Trace_Attrs", [good, bad1, bad2, bad3, sib, sib_bad], [2, 3, 4, 6], d, "attrs")


def project(d):
    files = [{"pc": "root", "parsable": True, "items": [{"k": "fn", "name": "a", "attr": "tauri_command", "pos": "top"},
                                                         {"k": "fn", "name": "h", "attr": "none", "pos": "top"}]},
             {"pc": "under_target", "parsable": True, "items": [{"k": "fn", "name": "t", "attr": "command", "pos": "top"}]}]
    good = {"event": "Discovery", "case": "st", "files": files, "wrappers": [{"fn": "a", "invoke": "a"}]}
    bad1 = dict(good, wrappers=[{"fn": "a", "invoke": "a"}, {"fn": "t", "invoke": "t"}])
    bad2 = dict(good, wrappers=[{"fn": "a", "invoke": "a"}, {"fn": "a2", "invoke": "a"}])
    types = {"A": {"serde": True, "fields": [{"ctx": "vec", "to": "B"}]}, "B": {"serde": True, "fields": []}, "C": {"serde": True, "fields": []}}
    roots = [{"site": "param", "ctx": "direct", "to": "A"}]
    r_good = {"event": "Reach", "case": "st", "types": types, "roots": roots, "declared": ["A", "B"]}
    r_bad1 = dict(r_good, declared=["A"])
    r_bad2 = dict(r_good, declared=["A", "B", "C"])
    mod = {"file": "types", "imports": [{"ns": "", "names": ["z"], "from": "zod"}], "reexports": [],
           "decls": [{"name": "BSchema", "kind": "const", "exported": True, "space": "value", "trefs": [], "vrefs": [{"q": "z", "n": "object"}], "lrefs": [], "brefs": [], "tparams": [], "locals": []},
                     {"name": "ASchema", "kind": "const", "exported": True, "space": "value", "trefs": [], "vrefs": [{"q": "z", "n": "object"}, {"q": "", "n": "BSchema"}], "lrefs": [], "brefs": [], "tparams": [], "locals": []}]}
    o_good = {"event": "Order", "case": "st", "module": mod}
    o_bad = {"event": "Order", "case": "st", "module": dict(mod, decls=list(reversed(mod["decls"])))}
    m_good = {"event": "Modules", "case": "st", "mods": {"types": mod}, "reexports": ["types"], "written": ["types", "index"]}
    mod_bad = copy.deepcopy(mod)
    mod_bad["decls"][1]["vrefs"].append({"q": "", "n": "MissingSchema"})
    m_bad1 = dict(m_good, mods={"types": mod_bad})
    m_bad2 = dict(m_good, reexports=["types", "events"])
    return _expect("Trace_Project", [good, bad1, bad2, r_good, r_bad1, r_bad2, o_good, o_bad, m_good, m_bad1, m_bad2],
                   [2, 3, 5, 6, 8, 10, 11], d, "project")


def pipeline(d):
    from lib.tsparse import chars

    def sysw(name, ok=True, where="out"):
        return {"event": "Sys", "op": "write", "path": "src/generated/" + name, "name": name, "ncs": chars(name), "where": where, "ok": ok, "ordered": True}
    snap_ok = {"event": "Snapshot", "files": {"types.ts": "current", "commands.ts": "current"}, "expected": ["commands.ts", "types.ts"],
               "foreignChanged": [], "wouldSkip": "unknown", "cachePresent": True, "outChanged": []}
    start = {"event": "RunStart", "driver": "cli", "forced": False}
    end_ok = {"event": "RunEnd", "status": "ok", "upToDate": False, "exit": 0, "injectedKill": False, "wroteNothing": False}
    good = [{"event": "Reset", "case": "good"}, start, sysw("types.ts"), sysw("commands.ts"), sysw(".typecache"), end_ok, snap_ok,
            start, dict(end_ok, upToDate=True, wroteNothing=True), snap_ok]
    n = len(good)
    # corruption 1: the second (unchanged, unforced) run writes a file  -> C14
    bad1 = [{"event": "Reset", "case": "bad1"}, start, sysw("types.ts"), sysw("commands.ts"), sysw(".typecache"), end_ok, snap_ok,
            start, sysw("types.ts"), end_ok, snap_ok]
    # corruption 2: cache record written before a binding -> C17 ; corruption 3: stale file after success -> C08 ; 4: foreign write -> C16
    bad2 = [{"event": "Reset", "case": "bad2"}, start, sysw(".typecache"), sysw("types.ts"), end_ok,
            dict(snap_ok, files={"types.ts": "stale", "commands.ts": "current"}), start, sysw("helper.ts"), end_ok, snap_ok]
    # corruption 5: run ends in a panic -> C15
    bad3 = [{"event": "Reset", "case": "bad3"}, start, dict(end_ok, status="panic"), dict(snap_ok, files={"types.ts": "absent", "commands.ts": "absent"})]
    evs = good + bad1 + bad2 + bad3
    got = _run("Trace_Pipeline", evs, d, "pipeline")
    b1 = n + 9
    b2 = n + len(bad1)
    expect = sorted({b1, b2 + 4, b2 + 6, b2 + 8, b2 + len(bad2) + 3})
    if got != expect or any(x <= n for x in got):
        raise C.ToolError("binding self-test of Trace_Pipeline failed: rejected lines %s, expected %s" % (got, expect))
    return {"spec": "Trace_Pipeline", "events": len(evs), "corruptions_rejected": len(expect), "uncorrupted_accepted": n}


def config(d):
    def atom(v, t="str"):
        return {"k": "atom", "t": t, "v": v}

    def obj(**kw):
        return {"k": "obj", "ms": [{"key": k, "v": v} for k, v in kw.items()]}
    before = obj(productName=atom("demo"), build=obj(n=atom("42", "num")), plugins=obj(shell=obj(open=atom("true", "bool"))))
    after = obj(build=obj(n=atom("42", "num")), productName=atom("demo"),
                plugins=obj(shell=obj(open=atom("true", "bool")), typegen=obj(projectPath=atom("./p"))))
    w = {"project_path": "\"./p\""}
    good = {"event": "ConfigSaved", "case": "st", "plugins": "other", "before": before, "after": after, "save": "ok", "load": "some", "written": w, "loaded": dict(w)}
    after_bad = copy.deepcopy(after)
    after_bad["ms"][0]["v"]["ms"][0]["v"]["v"] = "43"
    bad1 = dict(good, after=after_bad)
    bad2 = dict(good, loaded={"project_path": "\"./other\""})
    fl = {"project": "absent", "output": "A", "library": "absent", "verbose": "absent", "force": "absent"}
    fi = {"project": "B", "output": "B", "library": "zod", "verbose": "true", "force": "absent"}
    p_good = {"event": "Precedence", "case": "st", "flags": fl, "file": fi, "rejected": False, "mutated": True,
              "observed": {"project": "B", "output": "A", "library": "zod", "verbose": "true", "force": "false"}}
    p_bad = dict(p_good, observed=dict(p_good["observed"], output="B"))
    return _expect("Trace_Config", [good, bad1, bad2, p_good, p_bad], [2, 3, 5], d, "config")


ALL = {"names": names, "attrs": attrs, "project": project, "pipeline": pipeline, "config": config}


def run(which, d):
    return ALL[which](d)


if __name__ == "__main__":
    import sys
    sys.path.insert(0, C.VERIF)
    d = C.scratch("selftest")
    for k in (sys.argv[1:] or sorted(ALL)):
        print(k, json.dumps(run(k, d)))
