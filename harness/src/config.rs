//! C19: drives the REAL configuration read-modify-write code.
//!   tth config batch <dir>   for every sub-directory with doc.json + settings.json:
//!        GenerateConfig(settings).save_to_tauri_config(doc.json)  -> result.json {save: ok|err}
//!        GenerateConfig::from_tauri_config(doc.json)               -> loaded.json
use serde_json::json;
use tauri_typegen::GenerateConfig;

pub fn main(args: &[String]) -> i32 {
    if args.len() < 2 || args[0] != "batch" {
        eprintln!("usage: tth config batch <dir>");
        return 2;
    }
    let root = std::path::Path::new(&args[1]);
    let mut n = 0;
    let mut entries: Vec<_> = match std::fs::read_dir(root) {
        Ok(r) => r.filter_map(|e| e.ok()).map(|e| e.path()).collect(),
        Err(e) => {
            eprintln!("{}", e);
            return 2;
        }
    };
    entries.sort();
    for dir in entries {
        let doc = dir.join("doc.json");
        let settings = dir.join("settings.json");
        if !doc.exists() || !settings.exists() {
            continue;
        }
        n += 1;
        let text = std::fs::read_to_string(&settings).unwrap_or_default();
        let cfg: Result<GenerateConfig, _> = serde_json::from_str(&text);
        let cfg = match cfg {
            Ok(c) => c,
            Err(e) => {
                let _ = std::fs::write(dir.join("result.json"), json!({"save": "bad-settings", "msg": e.to_string()}).to_string());
                continue;
            }
        };
        let r = std::panic::catch_unwind(|| cfg.save_to_tauri_config(&doc).map_err(|e| e.to_string()));
        let save = match r {
            Ok(Ok(())) => json!({"save": "ok"}),
            Ok(Err(e)) => json!({"save": "err", "msg": e}),
            Err(_) => json!({"save": "panic"}),
        };
        let _ = std::fs::write(dir.join("result.json"), save.to_string());
        let l = std::panic::catch_unwind(|| GenerateConfig::from_tauri_config(&doc).map_err(|e| e.to_string()));
        let loaded = match l {
            Ok(Ok(Some(c))) => json!({"load": "some", "config": serde_json::to_value(&c).unwrap_or(json!("unserialisable"))}),
            Ok(Ok(None)) => json!({"load": "none"}),
            Ok(Err(e)) => json!({"load": "err", "msg": e}),
            Err(_) => json!({"load": "panic"}),
        };
        let _ = std::fs::write(dir.join("loaded.json"), loaded.to_string());
    }
    println!("{}", json!({"cases": n}));
    0
}
