"""C19 - configuration is preserved, round-trips, and obeys flag > file > default.

(A) TLC enumerates document shapes (spec/Gen_ConfigDoc.tla: with/without plugins, plugins empty / other
    plugins / an old typegen entry / both / not an object; optional nested members; atom slots); the harness
    fills the slots from an atom pool (escaped and Unicode strings, integers at the i64/u64 extremes, decimals,
    booleans, null), writes the document, and the REAL save_to_tauri_config / from_tauri_config are run on it
    for several settings values (tth config batch).  TLC judges (Trace_Config.tla / ConfigDoc.tla):
    Preserved(before, after), plugins.typegen present, read back = written.
(B) TLC enumerates every combination of flag {absent, value} and file {absent, A, B} for project path, output
    path, validation library, verbosity and force (11 664 combinations; sampled in the quick tier); each is run
    twice on the real CLI and the observed effective settings (which project was analysed, which directory
    received output, generator header, progress lines, regeneration despite cache) are compared by TLC with
    ConfigDoc!Effective.  Invalid library / missing project path: must exit non-zero with nothing written.
"""
import json
import os
import random
import shutil
import subprocess
import time
from concurrent.futures import ThreadPoolExecutor
from decimal import Decimal

from lib import common as C
from lib import pipeline, runner, rustgen
from lib.tsparse import ascii_safe

PROP = "C19"

POOL = {
    "s": ["plain", "", "with space", "a/b\\c", "null", "123", "true"],
    "u": ["üñí©ødé", "✓ check \U0001F600", "日本語", "zero​width"],
    "e": ["quote\" backslash\\ slash/", "line\nbreak\ttab\rcr", "\u0000nul\u001f", "</script>"],
    "n": ["0", "-1", "9223372036854775807", "-9223372036854775808", "18446744073709551615", "42", "1000000"],
    "d": ["0.5", "-2.25", "1e3", "1.5e-7", "123456.789", "-0.0", "3.0"],
    "b": ["true", "false"],
    "null": ["null"],
}


def atom_json(slot, idx):
    kind = "".join(ch for ch in slot if not ch.isdigit())
    vals = POOL[kind]
    v = vals[(idx + int("".join(ch for ch in slot if ch.isdigit()) or 0)) % len(vals)]
    if kind in ("s", "u", "e"):
        return json.dumps(v, ensure_ascii=(idx % 2 == 0))
    return v


def render_doc(t, idx, indent=0):
    k = t["k"]
    if k == "atom":
        return atom_json(t["slot"], idx)
    if k == "arr":
        return "[" + ", ".join(render_doc(x, idx) for x in t["es"]) + "]"
    parts = []
    for m in t["ms"]:
        key = m["key"]
        if key.startswith("ukey"):
            key = {"ukey1": "clé ünicode", "ukey2": "键"}[key]
        parts.append(json.dumps(key, ensure_ascii=(idx % 2 == 1)) + ": " + render_doc(m["v"], idx))
    sep = ",\n" + "  " * (indent + 1) if idx % 3 else ", "
    return "{" + sep.join(parts) + "}"


def to_tree(v):
    """exact JSON value -> ConfigDoc tree with canonical atoms"""
    if isinstance(v, dict):
        return {"k": "obj", "ms": [{"key": ascii_safe(k), "v": to_tree(x)} for k, x in v.items()]}
    if isinstance(v, list):
        return {"k": "arr", "es": [to_tree(x) for x in v]}
    if isinstance(v, bool):
        return {"k": "atom", "t": "bool", "v": "true" if v else "false"}
    if v is None:
        return {"k": "atom", "t": "null", "v": "null"}
    if isinstance(v, Decimal):
        n = v.normalize()
        if n == 0:
            n = Decimal(0)
        return {"k": "atom", "t": "num", "v": str(n)}
    return {"k": "atom", "t": "str", "v": ascii_safe(v)}


def parse_exact(text):
    return json.loads(text, parse_float=Decimal, parse_int=Decimal)


def canon_setting(v):
    return ascii_safe(json.dumps(v, sort_keys=True, ensure_ascii=True))


def settings_variants(projdir):
    base = {"project_path": projdir, "output_path": "./src/generated", "validation_library": "none"}
    return [
        dict(base),
        dict(base, output_path="../out üní/\"q\"\\b", validation_library="zod", verbose=True, visualize_deps=True,
             include_private=True, force=True),
        dict(base, type_mappings={"PathBuf": "string", "DateTime<Utc>": "string"}, exclude_patterns=["**/target/**", "a\"b"],
             include_patterns=["src/**"], verbose=False),
        dict(base, validation_library="zod", default_parameter_case="snake_case", default_field_case="camelCase"),
    ]


def part_a(d, tier, seed):
    g = C.run_tlc("Gen_ConfigDoc", "Gen_ConfigDoc_docs", workers=4, timeout=600)
    shapes = g.json_lines("REPLAY")
    if len(shapes) < 40:
        raise C.ToolError("too few document shapes: %d" % len(shapes))
    projdir = os.path.join(d, "proj")
    os.makedirs(projdir, exist_ok=True)
    batch = os.path.join(d, "batch")
    os.makedirs(batch)
    variants = settings_variants(projdir)
    fills = 2 if tier == "quick" else 7
    cases = []
    n = 0
    for si, sh in enumerate(shapes):
        # a document that already holds a typegen entry is written with every settings variant (set and unset options)
        nf = max(fills, len(variants)) if "typegen" in sh["plugins"] or "both" in sh["plugins"] else fills
        for f in range(nf):
            idx = seed + si * 7 + f * 3
            text = render_doc(sh["doc"], idx)
            sv = variants[(si + f) % len(variants)]
            cd = os.path.join(batch, "c%05d" % n)
            os.makedirs(cd)
            with open(os.path.join(cd, "doc.json"), "w", encoding="utf8") as fh:
                fh.write(text)
            with open(os.path.join(cd, "settings.json"), "w") as fh:
                json.dump(sv, fh)
            cases.append((cd, text, sv, sh["plugins"], si))
            n += 1
    p = C.sh([C.TTH, "config", "batch", batch], timeout=600)
    if p.returncode != 0:
        raise C.ToolError("tth config batch failed: " + p.stderr.decode()[-500:])
    # the full settings the tool serialises for a config = GenerateConfig defaults + given
    defaults = {"project_path": "./src-tauri", "output_path": "./src/generated", "validation_library": "none",
                "verbose": False, "visualize_deps": False, "include_private": False, "type_mappings": None,
                "exclude_patterns": None, "include_patterns": None, "default_parameter_case": "camelCase",
                "default_field_case": "snake_case", "force": False}
    events = []
    for cd, text, sv, pv, si in cases:
        before = to_tree(parse_exact(text))
        res = json.load(open(os.path.join(cd, "result.json"))) if os.path.exists(os.path.join(cd, "result.json")) else {"save": "missing"}
        try:
            after = to_tree(parse_exact(open(os.path.join(cd, "doc.json"), encoding="utf8").read()))
        except Exception as e:
            after = {"k": "atom", "t": "str", "v": "UNPARSABLE"}
        loaded = json.load(open(os.path.join(cd, "loaded.json"))) if os.path.exists(os.path.join(cd, "loaded.json")) else {"load": "missing"}
        full = dict(defaults)
        full.update(sv)
        written = {k: canon_setting(v) for k, v in full.items()}
        lc = loaded.get("config") if isinstance(loaded.get("config"), dict) else {}
        # Option<bool> settings: Some(false) and absent are the same setting
        ld = {k: canon_setting(v if v is not None or k in ("type_mappings", "exclude_patterns", "include_patterns") else False) for k, v in lc.items()}
        if not ld:
            ld = {"_none": "-"}
        events.append({"event": "ConfigSaved", "case": "shape%d/%s/%s" % (si, pv, os.path.basename(cd)), "plugins": pv,
                       "before": before, "after": after, "save": res.get("save", "missing"),
                       "load": loaded.get("load", "missing"), "written": written, "loaded": ld})
    return events, len(shapes)


PROJ_SRC = """use serde::{Deserialize, Serialize};
#[derive(Serialize, Deserialize)]
pub struct Thing { pub v: i32 }
#[tauri::command]
pub fn %s(t: Thing) -> Thing { t }
"""


# how the directories behind the abstract values A / B / missing are spelled: a path is a path whatever its last
# component looks like (dots, several dots, nesting, a trailing slash)
PATH_SHAPES = [
    {"pA": "./projA", "pB": "./projB", "oA": "./outA", "oB": "./outB", "miss": "./nope"},
    {"pA": "./proj.v2", "pB": "./proj.v3", "oA": "./out.d", "oB": "./out.e", "miss": "./nope.v2"},
    {"pA": "./com.example.app", "pB": "./com.example.other", "oA": "./gen.ts", "oB": "./gen.d.ts", "miss": "./missing.conf.json"},
    {"pA": "./nested/dir.d/projA", "pB": "./nested/dir.d/projB", "oA": "./web/src.gen/outA", "oB": "./web/src.gen/outB", "miss": "./nested/dir.d/nope"},
    {"pA": "./projA/", "pB": "projB", "oA": "outA/", "oB": ".//outB/", "miss": "nope/"},
]


def make_prec_sandbox(root, file_settings, delivery="tauri_conf", shape=0):
    sh = PATH_SHAPES[shape]
    for rel, cmd in (("src-tauri", "cmd_default"), (sh["pA"], "cmd_a"), (sh["pB"], "cmd_b")):
        rustgen.write_project(root, {os.path.normpath(rel) + "/src/lib.rs": PROJ_SRC % cmd})
    # a stray command beside the projects: it must never show up in any bindings
    rustgen.write_project(root, {"stray.rs": PROJ_SRC % "cmd_stray"})
    tg = {}
    m = {"project": "projectPath", "output": "outputPath", "library": "validationLibrary", "verbose": "verbose", "force": "force"}
    for s, v in file_settings.items():
        if v == "absent":
            continue
        if s == "project":
            tg[m[s]] = {"A": sh["pA"], "B": sh["pB"], "missing": os.path.normpath(sh["pA"]) + "/src/lib.rs/inner" if (sum(map(ord, json.dumps(file_settings, sort_keys=True))) % 2) else sh["miss"]}[v]
        elif s == "output":
            tg[m[s]] = {"A": sh["oA"], "B": sh["oB"]}[v]
        elif s == "library":
            tg[m[s]] = v
        else:
            tg[m[s]] = (v == "true")
    if delivery == "standalone":
        # a stand-alone configuration file handed over with -c: settings the file does not mention are simply absent
        sk = {"projectPath": "project_path", "outputPath": "output_path", "validationLibrary": "validation_library", "verbose": "verbose", "force": "force"}
        with open(os.path.join(root, "typegen.json"), "w") as f:
            json.dump({sk[k]: v for k, v in tg.items()}, f, indent=2)
        return
    doc = {"productName": "demo", "plugins": {"shell": {"open": True}}}
    if tg:
        doc["plugins"]["typegen"] = tg
    with open(os.path.join(root, "tauri.conf.json"), "w") as f:
        json.dump(doc, f, indent=2)


def flags_args(flags, shape=0):
    sh = PATH_SHAPES[shape]
    a = []
    if flags["project"] != "absent":
        a += ["-p", {"A": sh["pA"], "missing": os.path.normpath(sh["pB"]) + "/src/lib.rs/inner" if (sum(map(ord, json.dumps(flags, sort_keys=True))) % 2) else sh["miss"],
                     "D": "./src-tauri"}[flags["project"]]]
    if flags["output"] != "absent":
        a += ["-o", {"A": sh["oA"], "D": "./src/generated"}[flags["output"]]]
    if flags["library"] != "absent":
        a += ["-v", flags["library"]]
    if flags["verbose"] == "true":
        a.append("--verbose")
    if flags["force"] == "true":
        a.append("--force")
    return a


def observe_prec(root, flags, filev, delivery="tauri_conf", shape=0):
    make_prec_sandbox(root, filev, delivery, shape)
    sh = PATH_SHAPES[shape]
    before = pipeline.tree_hashes(root)
    args = ["generate"] + flags_args(flags, shape) + (["-c", "typegen.json"] if delivery == "standalone" else [])
    r1 = runner.cli(args, root)
    after1 = pipeline.tree_hashes(root)
    rejected = r1.rc != 0
    mutated = after1 != before
    obs = {"project": "none", "output": "none", "library": "none", "verbose": "false", "force": "false"}
    if not rejected:
        outs = {"default": "src/generated", "A": os.path.normpath(sh["oA"]), "B": os.path.normpath(sh["oB"])}
        got = [k for k, rel in outs.items() if os.path.isfile(os.path.join(root, rel, "commands.ts"))]
        # bindings anywhere else in the sandbox are an output path nobody asked for
        stray = [os.path.relpath(os.path.join(b_, f), root) for b_, _, fs in os.walk(root) for f in fs
                 if f == "commands.ts" and os.path.relpath(b_, root) not in outs.values()]
        if stray:
            got.append("elsewhere:" + stray[0])
        obs["output"] = got[0] if len(got) == 1 else ("none" if not got else "+".join(sorted(got)))
        if len(got) >= 1:
            odir = os.path.join(root, outs[got[0]])
            ctext = open(os.path.join(odir, "commands.ts")).read()
            which = [k for k, mark in (("A", "'cmd_a'"), ("B", "'cmd_b'"), ("default", "'cmd_default'"), ("stray", "'cmd_stray'")) if mark in ctext]
            obs["project"] = which[0] if len(which) == 1 else ("none" if not which else "+".join(which))
            obs["library"] = "zod" if "Generator: zod" in ctext else "none" if "Generator: none" in ctext else "?"
            obs["verbose"] = "true" if "Analyzing file" in r1.out else "false"
            m1 = {n: os.stat(os.path.join(odir, n)).st_mtime_ns for n in os.listdir(odir) if n.endswith(".ts")}
            time.sleep(0.01)
            r2 = runner.cli(args, root)
            m2 = {n: os.stat(os.path.join(odir, n)).st_mtime_ns for n in os.listdir(odir) if n.endswith(".ts")}
            obs["force"] = "true" if (r2.rc == 0 and m1 != m2) else "false"
    shutil.rmtree(root, ignore_errors=True)
    return {"rejected": bool(rejected), "mutated": bool(mutated), "observed": obs, "stderr": r1.err[-200:]}


def part_b(d, tier, seed):
    g = C.run_tlc("Gen_ConfigDoc", "Gen_ConfigDoc_prec", workers=8, timeout=900, heap="8g")
    combos = g.json_lines("REPLAY")
    if len(combos) < 20000:
        raise C.ToolError("too few precedence combinations: %d" % len(combos))
    rnd = random.Random(seed)
    total = len(combos)
    if tier == "quick":
        # every (flag value, file value) pair of every setting with all other settings absent, and with all other
        # settings present in the file; plus a seeded sample of the rest
        def others(c, s, where, want_absent):
            return all((c[where][t] == "absent") == want_absent for t in c[where] if t != s)
        single = []
        for s_ in ("project", "output", "library", "verbose", "force"):
            single += [c for c in combos if others(c, s_, "flags", True) and (others(c, s_, "file", True) or others(c, s_, "file", False))]
        seen = set()
        uniq = []
        for c in single:
            k = json.dumps(c, sort_keys=True)
            if k not in seen:
                seen.add(k)
                uniq.append(c)
        # the "other settings present" family is large (2^4 value choices): keep one per (setting, flag value, file value)
        keep = {}
        for c in uniq:
            for s_ in ("project", "output", "library", "verbose", "force"):
                if others(c, s_, "flags", True):
                    kk = (s_, c["flags"][s_], c["file"][s_], others(c, s_, "file", True))
                    keep.setdefault(kk, c)
        combos = list(keep.values()) + rnd.sample(combos, 200)
    # invalid settings: substitute one invalid value into a sample
    rej = []
    for c in rnd.sample(combos, min(len(combos), 40 if tier == "quick" else 400)):
        for where in ("flags", "file"):
            for s, bad in (("library", "yup"), ("project", "missing")):
                cc = json.loads(json.dumps(c))
                cc[where][s] = bad
                rej.append(cc)
    allc = combos + rej

    def work(ic):
        i, (c, delivery, shape) = ic
        o = observe_prec(os.path.join(d, "prec-%d" % i), c["flags"], c["file"], delivery, shape)
        return {"event": "Precedence", "case": "prec%d/%s/paths%d" % (i, delivery, shape), "flags": c["flags"], "file": c["file"], "delivery": delivery, "paths": shape,
                "rejected": o["rejected"], "mutated": o["mutated"], "observed": o["observed"]}
    # the file settings reach the tool through plugins.typegen of a discovered tauri.conf.json or through a stand-alone
    # file given with -c (where an unmentioned setting is ABSENT, not defaulted): every case of the deterministic
    # families both ways, the sampled rest alternating
    ndet = len(allc) - len(rej) - (200 if tier == "quick" else 0)
    jobs = []
    # ... and every case of the deterministic families that names a project or output directory under every path
    # spelling (PATH_SHAPES); the rest rotate through the spellings
    def names_dir(c):
        return any(c[w][s_] not in ("absent", "D") for w in ("flags", "file") for s_ in ("project", "output"))
    for i, c in enumerate(allc):
        if tier == "quick" and i < max(ndet, 0):
            for shape in (range(len(PATH_SHAPES)) if names_dir(c) else (0,)):
                jobs.append((c, "tauri_conf", shape))
                jobs.append((c, "standalone", shape))
        else:
            jobs.append((c, "standalone" if i % 2 else "tauri_conf", i % len(PATH_SHAPES)))
    with ThreadPoolExecutor(max_workers=12) as ex:
        evs = list(ex.map(work, enumerate(jobs)))
    return evs, total, len(rej)


def part_d(d):
    """the build-script path has no flags: file over default - also when the file CHANGES between builds over one
    output directory (a build must not keep what an earlier configuration left behind).  Every ordered pair X, Y of
    file settings over project {A, B} x library {none, zod, absent} x force {absent, true} is run as X, Y, X with the
    real BuildSystem driver; every run's observed effective settings must be Effective({}, file)."""
    combos = [{"project": p_, "output": "A", "library": l_, "verbose": "absent", "force": f_}
              for p_ in ("A", "B") for l_ in ("none", "zod", "absent") for f_ in ("absent", "true")]
    absent = {"project": "absent", "output": "absent", "library": "absent", "verbose": "absent", "force": "absent"}
    seqs = [(x, y) for x in combos for y in combos if x != y]

    def build_once(root):
        return subprocess.run([C.TTH, "build"], cwd=root, stdout=subprocess.PIPE, stderr=subprocess.PIPE, timeout=120)

    def work(iseq):
        i, (x, y) = iseq
        root = os.path.join(d, "bseq-%d" % i)
        shape = i % len(PATH_SHAPES)
        sh = PATH_SHAPES[shape]
        evs = []
        for step, fv in enumerate((x, y, x)):
            make_prec_sandbox(root, fv, "tauri_conf", shape) if step == 0 else write_conf_only(root, fv, shape)
            r1 = build_once(root)
            obs = {"project": "none", "output": "none", "library": "none", "verbose": "false", "force": "false"}
            odir = os.path.join(root, os.path.normpath(sh["oA"]))
            if r1.returncode == 0 and os.path.isfile(os.path.join(odir, "commands.ts")):
                ctext = open(os.path.join(odir, "commands.ts")).read()
                which = [k for k, mark in (("A", "'cmd_a'"), ("B", "'cmd_b'"), ("default", "'cmd_default'"), ("stray", "'cmd_stray'")) if mark in ctext]
                obs["project"] = which[0] if len(which) == 1 else ("none" if not which else "+".join(which))
                obs["output"] = "A"
                obs["library"] = "zod" if "Generator: zod" in ctext else "none" if "Generator: none" in ctext else "?"
                m1 = {n: os.stat(os.path.join(odir, n)).st_mtime_ns for n in os.listdir(odir) if n.endswith(".ts")}
                time.sleep(0.01)
                r2 = build_once(root)
                m2 = {n: os.stat(os.path.join(odir, n)).st_mtime_ns for n in os.listdir(odir) if n.endswith(".ts")}
                obs["force"] = "true" if (r2.returncode == 0 and m1 != m2) else "false"
            evs.append({"event": "Precedence", "case": "bseq%d/step%d/paths%d" % (i, step, shape), "flags": absent, "file": fv, "delivery": "build_sequence",
                        "paths": shape, "rejected": r1.returncode != 0, "mutated": True, "observed": obs,
                        "history": [x, y, x][:step + 1]})
        shutil.rmtree(root, ignore_errors=True)
        return evs
    out = []
    with ThreadPoolExecutor(max_workers=12) as ex:
        for evs in ex.map(work, enumerate(seqs)):
            out.extend(evs)
    return out


def write_conf_only(root, file_settings, shape):
    """rewrite tauri.conf.json of an existing precedence sandbox, nothing else"""
    sh = PATH_SHAPES[shape]
    m = {"project": "projectPath", "output": "outputPath", "library": "validationLibrary", "verbose": "verbose", "force": "force"}
    tg = {}
    for s_, v in file_settings.items():
        if v == "absent":
            continue
        if s_ == "project":
            tg[m[s_]] = {"A": sh["pA"], "B": sh["pB"]}[v]
        elif s_ == "output":
            tg[m[s_]] = {"A": sh["oA"], "B": sh["oB"]}[v]
        elif s_ == "library":
            tg[m[s_]] = v
        else:
            tg[m[s_]] = (v == "true")
    doc = {"productName": "demo", "plugins": {"shell": {"open": True}, "typegen": tg}}
    with open(os.path.join(root, "tauri.conf.json"), "w") as f:
        json.dump(doc, f, indent=2)


def part_e(d):
    """sequences of `init` over one tauri.conf.json: every ordered pair of init settings (library x verbose x
    visualisation x generated path), the second run on the document the first one left; after each run the entry read
    back must hold that run's settings and every other key of the document must be what it was"""
    settings = [{"library": l_, "verbose": v_, "viz": z_, "gen": g_} for l_ in ("none", "zod") for v_ in (False, True) for z_ in (False, True)
                for g_ in ("./src/generated", "./web/bindings")]
    seqs = [(a, b) for a in settings for b in settings if a != b]
    rest = {"productName": "demo \u00e9\u20ac \"quoted\"", "version": "1.0.0", "build": {"frontendDist": "../dist", "big": 18446744073709551615, "neg": -9223372036854775808},
            "plugins": {"shell": {"open": True}, "fs": {"scope": ["a", "b"]}}}

    def canon(tg):
        return {"projectPath": str(tg.get("projectPath")), "outputPath": str(tg.get("outputPath")), "validationLibrary": str(tg.get("validationLibrary")),
                "verbose": "true" if tg.get("verbose") else "false", "visualizeDeps": "true" if tg.get("visualizeDeps") else "false"}

    def work(iseq):
        i, seq = iseq
        root = os.path.join(d, "iseq-%d" % i)
        rustgen.write_project(root, {"src-tauri/src/lib.rs": rustgen.PRELUDE + "#[tauri::command]\npub fn hello() {}\n",
                                     "src-tauri/tauri.conf.json": json.dumps(rest, indent=2)})
        evs = []
        for step, st_ in enumerate(seq):
            args = ["init", "-p", "./src-tauri", "-g", st_["gen"], "-v", st_["library"]] + (["--verbose"] if st_["verbose"] else []) + (["--visualize-deps"] if st_["viz"] else [])
            r = runner.cli(args, root)
            try:
                doc = json.load(open(os.path.join(root, "src-tauri", "tauri.conf.json")))
            except Exception:
                doc = {}
            tg = (doc.get("plugins") or {}).get("typegen") or {}
            others = json.loads(json.dumps(doc))
            if isinstance(others.get("plugins"), dict):
                others["plugins"].pop("typegen", None)
            written = {"projectPath": "./src-tauri", "outputPath": st_["gen"], "validationLibrary": st_["library"],
                       "verbose": "true" if st_["verbose"] else "false", "visualizeDeps": "true" if st_["viz"] else "false"}
            evs.append({"event": "InitSeq", "case": "iseq%d/step%d" % (i, step), "rejected": r.rc != 0, "written": written, "loaded": canon(tg) if tg else {"_none": "-"},
                        "restPreserved": others == rest, "sequence": [dict(x) for x in seq[:step + 1]]})
        shutil.rmtree(root, ignore_errors=True)
        return evs
    out = []
    with ThreadPoolExecutor(max_workers=12) as ex:
        for evs in ex.map(work, enumerate(seqs)):
            out.extend(evs)
    return out


def part_c(d):
    """`init` with an unsupported library / a missing project path, for every kind of configuration target"""
    evs = []
    doc = json.dumps({"productName": "demo", "plugins": {"shell": {"open": True}}}, indent=2)
    n = 0
    for target in ("project_conf", "given_conf", "custom_new", "custom_existing_forced"):
        for library in ("none", "zod", "yup", "ZOD", ""):
            for project in ("present", "missing", "missing_below_file", "missing_dangling_link"):
                n += 1
                root = os.path.join(d, "init-%d" % n)
                files = {"src-tauri/src/lib.rs": rustgen.PRELUDE + "#[tauri::command]\npub fn hello() {}\n",
                         "src-tauri/tauri.conf.json": doc, "cfgdir/tauri.conf.json": doc, "cfgdir/old.json": "{\"old\": true}\n"}
                rustgen.write_project(root, files)
                ppath = {"present": "./src-tauri", "missing": "./missing", "missing_below_file": "./src-tauri/src/lib.rs/src",
                         "missing_dangling_link": "./dangling"}[project]
                files["dangling"] = "SYMLINK:./nowhere"
                rustgen.write_project(root, {"dangling": files["dangling"]})
                args = ["init", "-p", ppath, "-g", "./src/generated", "-v", library]
                if target == "project_conf":
                    args += ["-o", "src-tauri/tauri.conf.json"]
                elif target == "given_conf":
                    args += ["-o", "cfgdir/tauri.conf.json"]
                elif target == "custom_new":
                    args += ["-o", "cfgdir/new.json"]
                else:
                    args += ["-o", "cfgdir/old.json", "--force"]

                def snap():
                    out = {}
                    for base, _, fs in os.walk(root):
                        for f in fs:
                            p = os.path.join(base, f)
                            out[os.path.relpath(p, root)] = ("-> " + os.readlink(p)).encode() if os.path.islink(p) else open(p, "rb").read()
                    return out
                before = snap()
                r = runner.cli(args, root)
                after = snap()
                evs.append({"event": "InitRun", "case": "init%d/%s" % (n, target), "target": target, "library": library if library else "empty",
                            "project": "missing" if project.startswith("missing") else project, "how": project, "rejected": r.rc != 0, "mutated": before != after,
                            "changed": sorted(k for k in set(before) | set(after) if before.get(k) != after.get(k))[:6]})
                shutil.rmtree(root, ignore_errors=True)
    return evs


def run(tier, seed):
    t0 = time.time()
    d = C.scratch("c19")
    verdicts = C.Verdicts(PROP)
    ea, nshapes = part_a(d, tier, seed)
    eb, ncombos, nrej = part_b(d, tier, seed)
    ec = part_c(d)
    ed = part_d(d)
    ee = part_e(d)
    events = ea + eb + ec + ed + ee
    mism_all = []
    CH = 4000
    for ci in range(0, len(events), CH):
        p = os.path.join(d, "t%d.ndjson" % ci)
        C.write_ndjson(p, events[ci:ci + CH])
        consumed, mism, r = C.validate_trace("Trace_Config", "Trace_Config", p, timeout=1800, heap="8g")
        if not consumed:
            raise C.ToolError("config trace not consumed\n" + r.out[-1500:])
        for m in mism:
            mism_all.append((ci + m[1] - 1, m[4]))
        os.remove(p)
    for idx, why in mism_all:
        ev = events[idx]
        if ev["event"] == "ConfigSaved":
            w0 = why[0] if isinstance(why, list) else str(why)
            detail = str(why[1:]) if isinstance(why, list) else ""
            verdicts.reject("doc plugins=%s what=%s" % (ev["plugins"], w0), detail[:160],
                            "save_to_tauri_config/from_tauri_config on a document with plugins=%s: %s %s" % (ev["plugins"], w0, detail[:200]),
                            {"case": ev["case"], "before": ev["before"], "written": ev["written"]})
        elif ev["event"] == "InitSeq":
            verdicts.reject("init-sequence what=%s" % (why[0] if isinstance(why, list) else str(why))[:60], str(why[1:] if isinstance(why, list) else "")[:160],
                            "after the `init` sequence %s the document's typegen entry reads %s, this run wrote %s (rest of the document preserved: %s)"
                            % (json.dumps(ev["sequence"]), ev["loaded"], ev["written"], ev["restPreserved"]), ev)
        elif ev["event"] == "InitRun":
            verdicts.reject("init target=%s library=%s project=%s" % (ev["target"], "valid" if ev["library"] in ("zod", "none") else "invalid", ev["project"]),
                            "rejected=%s mutated=%s" % (ev["rejected"], ev["mutated"]),
                            "`init -o <%s> -v '%s'` with project path %s: rejected=%s, files changed=%s" % (ev["target"], ev["library"], ev["project"], ev["rejected"], ev["changed"]),
                            {"case": ev["case"], "library": ev["library"], "project": ev["project"], "target": ev["target"]})
        else:
            w0 = why[0] if isinstance(why, list) else str(why)
            detail = str(why[1:]) if isinstance(why, list) else ""
            fl = ",".join("%s=%s" % (k, v) for k, v in sorted(ev["flags"].items()) if v != "absent")
            fi = ",".join("%s=%s" % (k, v) for k, v in sorted(ev["file"].items()) if v != "absent")
            # canonical key: the settings that differ and where the invalid value sits
            seq = ""
            if ev.get("delivery") == "build_sequence":
                seq = " [build-script path, step %d of the configuration sequence %s over one output directory]" % (len(ev["history"]), json.dumps(ev["history"]))
            verdicts.reject("prec what=%s detail=%s invalid=%s%s" % (w0, detail[:80], _invalid(ev), " build-sequence" if seq else ""), "flags[%s] file[%s]" % (fl, fi),
                            "flags {%s} + tauri.conf.json {%s}: %s %s; observed %s rejected=%s mutated=%s%s"
                            % (fl, fi, w0, detail, ev["observed"], ev["rejected"], ev["mutated"], seq), ev)
    rc = verdicts.finish()
    C.write_evidence(PROP, tier, seed, "exploration", {
        "evaluations": len(events),
        "distinct_nontrivial": len({json.dumps([e.get("plugins"), e.get("flags"), e.get("file"), e["case"].split("/")[0]], sort_keys=True) for e in events}),
        "rule": "(A) %d TLC-enumerated document shapes x atom fills x 4 settings values through the real save/load; "
                "(B) %d of %d TLC-enumerated flag/file combinations (+%d with one invalid value) run twice on the real CLI; "
                "distinct = distinct (shape, fill) / (flags, file)" % (nshapes, len(eb) - nrej, ncombos, nrej),
        "samples": [{"case": e["case"], "plugins": e.get("plugins"), "flags": e.get("flags"), "file": e.get("file")} for e in events[:: max(1, len(events) // 6)][:6]],
        "documents": len(ea), "precedence_runs": len(eb), "build_sequence_runs": len(ed), "init_sequence_runs": len(ee),
        "traces_validated_against_impl": len(events),
        "known_findings_matched": len(verdicts.known_hit),
        "exhaustive": tier == "thorough",
    }, time.time() - t0, assumptions=["documents are compared through an exact JSON reader (Decimal numbers); object key order is not significant",
                                      "numbers are limited to what an f64 / i64 / u64 represents exactly"],
        violations=len(verdicts.violations))
    shutil.rmtree(d, ignore_errors=True)
    return rc


def _invalid(ev):
    out = []
    for w in ("flags", "file"):
        for s, v in ev[w].items():
            if v in ("yup", "missing"):
                out.append("%s.%s" % (w, s))
    return "+".join(out) or "none"


def replay(path, seed):
    return run("quick", seed)
