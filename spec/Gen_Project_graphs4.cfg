INIT Init
NEXT Next
CONSTANT Mode = "graphs4"
CONSTANT EmitDepth = 2
INVARIANT Emit
CHECK_DEADLOCK FALSE
