SPECIFICATION MCSpec
CONSTANTS
 Classes <- SmallClasses
 HashedClasses <- SmallHashedPinned
 VizHashed = TRUE
 FlagOverwritesConfig = FALSE
 EventsHashed = FALSE
 NOrders = 2
 KeyDependsOnOrder = TRUE
 OutputDependsOnOrder = TRUE
 CacheLooksAtFiles = FALSE
 CacheSavedLast = TRUE
 CacheDroppedFirst = FALSE
 Drivers <- BothDrivers
 BuildCleansOnEmpty = TRUE
 BuildProbes = TRUE
 MaxEnv = 2
 MaxRuns = 3
 MaxFaults = 1
VIEW View
INVARIANTS C08_SuccessMeansCurrent C14_ForceRegenerates C13_OrderIndependent C17_FailureReported C17_CacheNotNewer
PROPERTIES C14_NoChangeNoWrite C16_ProbeUntouched
CHECK_DEADLOCK FALSE
