//! Runs the REAL build-script driver in the current working directory:
//! tauri_typegen::BuildSystem::generate_at_build_time().  Exit 0 = Ok, 1 = Err, 101 = panic.
pub fn main(_args: &[String]) -> i32 {
    let r = std::panic::catch_unwind(|| tauri_typegen::BuildSystem::generate_at_build_time());
    match r {
        Ok(Ok(())) => {
            println!("BUILD-DRIVER ok");
            0
        }
        Ok(Err(e)) => {
            eprintln!("BUILD-DRIVER error: {}", e);
            1
        }
        Err(_) => {
            eprintln!("BUILD-DRIVER panic");
            101
        }
    }
}
