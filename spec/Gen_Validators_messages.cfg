INIT Init
NEXT Next
CONSTANT Mode = "messages"
INVARIANT Emit
CHECK_DEADLOCK FALSE
