----------------------------- MODULE BuildWatch -----------------------------
(***************************************************************************)
(* Beyond the listed properties (X05): the build-script driver             *)
(* (src/build/mod.rs: load_configuration, setup_build_dependencies) -      *)
(* which configuration a build uses and which paths it asks cargo to watch  *)
(* (cargo:rerun-if-changed).  cargo re-runs a build script only when a      *)
(* watched path changes, so an input that is read but not watched is a      *)
(* stale-bindings hazard of the same family as C08.                        *)
(*                                                                         *)
(* case : [conf : "none" | "entry" | "noentry" | "notjson" | "badlib",      *)
(*                 tauri.conf.json in the directory the script runs in:     *)
(*                 absent / with a plugins.typegen entry / without one /    *)
(*                 not JSON / an entry naming an unsupported library        *)
(*         tg   : "none" | "valid" | "notjson",      typegen.json there     *)
(*         out  : BOOLEAN]   the configured output directory exists before  *)
(*                           the run                                        *)
(* The project is always detectable (a src-tauri directory with commands).  *)
(*                                                                         *)
(* As built (named deviations, kept because the code does this today):      *)
(*   InvalidFallsThrough  a configuration file that cannot be used (not     *)
(*                  JSON, unsupported library) is skipped with a warning    *)
(*                  and the next source is tried, down to the defaults      *)
(*   OutputWatchedOnlyIfPresent  the output directory is watched only if it *)
(*                  existed BEFORE the run (the first build does not watch  *)
(*                  what it has just written)                               *)
(***************************************************************************)
EXTENDS Naturals, FiniteSets

Confs == {"none", "entry", "noentry", "notjson", "badlib"}
Tgs == {"none", "valid", "notjson"}

\* which configuration the run uses
Source(c) == IF c.conf = "entry" THEN "conf"
             ELSE IF c.tg = "valid" THEN "tg"
             ELSE "defaults"

\* files the run opens to decide that
Consulted(c) == (IF c.conf # "none" THEN {"tauri.conf.json"} ELSE {})
                \cup (IF c.tg # "none" /\ c.conf # "entry" THEN {"typegen.json"} ELSE {})

\* every source's own output directory, so that the source is observable
OutDir(src) == CASE src = "conf" -> "gen-conf" [] src = "tg" -> "gen-tg" [] OTHER -> "src/generated"

Watched(c) == {"project"}
              \cup (IF c.conf # "none" THEN {"tauri.conf.json"} ELSE {})
              \cup (IF c.tg # "none" THEN {"typegen.json"} ELSE {})
              \cup (IF c.out THEN {"output"} ELSE {})

Expected(c) == [status |-> "ok", source |-> Source(c), watched |-> Watched(c), bindings |-> TRUE]

\* what a user relies on, whatever the mechanism: everything the run read is watched, and so are the sources
InputsWatched(c, r) ==
    r.status = "ok" => /\ "project" \in r.watched
                       /\ Consulted(c) \subseteq r.watched
\* a configuration file that appears later must be noticed as well: a path that was looked for and not found is
\* an input too.  NOT satisfied as built (cargo cannot watch a non-existent path before Rust 1.?; recorded, not asserted)
AbsentInputsWatched(c, r) == r.status = "ok" => {"tauri.conf.json", "typegen.json"} \subseteq r.watched
\* the generated files are watched after a run that wrote them.  NOT satisfied as built when ~c.out
\* (OutputWatchedOnlyIfPresent): negative control in MC_BuildWatch_neg.cfg
OutputWatched(c, r) == (r.status = "ok" /\ r.bindings) => "output" \in r.watched
=============================================================================
