------------------------------ MODULE TypeLang ------------------------------
(***************************************************************************)
(* The type-translation part of the specification (properties C05, C10,    *)
(* C18; used by C02, C04, C07, C09, C12).                                  *)
(*                                                                         *)
(*   Rust type AST  --Shape-->  JSON shape  <--ShapeOfTs--  TypeScript AST *)
(*                                          <--ShapeOfZod-- Zod call chain *)
(*                                                                         *)
(* This module is contract layer only: it says what the emitted text must  *)
(* MEAN, not how tauri-typegen computes it (string slicing in              *)
(* type_resolver.rs); any correct translator satisfies it.                 *)
(*                                                                         *)
(* Rust type AST (records, field k = constructor):                         *)
(*   [k |-> "leaf", c |-> "str"|"num"|"bool"|"unit"]                       *)
(*   [k |-> "named", n |-> name]              project struct / enum        *)
(*   [k |-> "mapped", n |-> source name, base |-> its identifier part,     *)
(*    to |-> "string"|"number"|"boolean"]                                  *)
(*   [k |-> "opt"|"vec"|"hset"|"bset"|"ref"|"res1"|"chan", a |-> T]        *)
(*   [k |-> "hmap"|"bmap"|"res", a |-> T, b |-> T]                         *)
(*   [k |-> "tup", ts |-> <<T,...>>]                                       *)
(*                                                                         *)
(* JSON shapes:                                                            *)
(*   [k |-> "str"|"num"|"bool"|"null"]   [k |-> "tyref", n |-> name]       *)
(*   [k |-> "nullable", e |-> S]   [k |-> "arr", e |-> S]                  *)
(*   [k |-> "rec", key |-> S, v |-> S]   [k |-> "tup", es |-> <<S,...>>]   *)
(*   junk shapes (never equal to a serde shape): "optional", "set",        *)
(*   "union", "other", "missing", "unparsable"                             *)
(***************************************************************************)
EXTENDS Naturals, Sequences, FiniteSets, TLC

-----------------------------------------------------------------------------
(* Shapes                                                                   *)

SStr  == [k |-> "str"]
SNum  == [k |-> "num"]
SBool == [k |-> "bool"]
SNull == [k |-> "null"]
SRef(n) == [k |-> "tyref", n |-> n]
SArr(s) == [k |-> "arr", e |-> s]
SRec(ks, vs) == [k |-> "rec", key |-> ks, v |-> vs]
STup(ss) == [k |-> "tup", es |-> ss]
SOther(w) == [k |-> "other", why |-> w]
\* serde: Option<Option<T>> serialises None and Some(None) both as null
\* ... and Option<()> serialises both of its values as null
SNullable(s) == IF s.k \in {"nullable", "null"} THEN s ELSE [k |-> "nullable", e |-> s]
SOptional(s) == IF s.k = "optional" THEN s ELSE [k |-> "optional", e |-> s]

MapSeq(F(_), s) == [i \in DOMAIN s |-> F(s[i])]

-----------------------------------------------------------------------------
(* Rust side: the JSON shape serde produces (README type table)             *)

RECURSIVE Shape(_)
Shape(t) ==
    CASE t.k = "leaf" ->
            (CASE t.c = "str"  -> SStr
               [] t.c = "num"  -> SNum
               [] t.c = "bool" -> SBool
               [] t.c = "unit" -> SNull)
      [] t.k = "named"  -> SRef(t.n)
      [] t.k = "mapped" ->
            (CASE t.to = "string"  -> SStr
               [] t.to = "number"  -> SNum
               [] t.to = "boolean" -> SBool
               [] OTHER -> SOther("mapping target"))
      [] t.k = "opt"  -> SNullable(Shape(t.a))
      [] t.k \in {"vec", "hset", "bset"} -> SArr(Shape(t.a))
      [] t.k \in {"ref", "res1", "chan"} -> Shape(t.a)
      [] t.k = "res"  -> Shape(t.a)                      \* error arm surfaces as a rejection only
      [] t.k \in {"hmap", "bmap"} -> SRec(Shape(t.a), Shape(t.b))
      [] t.k = "tup"  -> STup([i \in DOMAIN t.ts |-> Shape(t.ts[i])])

\* Named project types a type expression mentions in positions that reach
\* the wire (ok arm of Result only) -- used by Project.tla for C07.
RECURSIVE Mentions(_)
Mentions(t) ==
    CASE t.k = "named" -> {t.n}
      [] t.k \in {"leaf", "mapped"} -> {}
      [] t.k \in {"opt", "vec", "hset", "bset", "ref", "res1", "chan", "res"} -> Mentions(t.a)
      [] t.k \in {"hmap", "bmap"} -> Mentions(t.a) \cup Mentions(t.b)
      [] t.k = "tup" -> UNION {Mentions(t.ts[i]) : i \in DOMAIN t.ts}

\* Names that must not appear anywhere once mapped (C18)
RECURSIVE MappedNames(_)
MappedNames(t) ==
    CASE t.k = "mapped" -> {t.base}
      [] t.k \in {"leaf", "named"} -> {}
      [] t.k \in {"opt", "vec", "hset", "bset", "ref", "res1", "chan"} -> MappedNames(t.a)
      [] t.k \in {"hmap", "bmap", "res"} -> MappedNames(t.a) \cup MappedNames(t.b)
      [] t.k = "tup" -> UNION {MappedNames(t.ts[i]) : i \in DOMAIN t.ts}

\* C18: the type obtained by replacing every mapped source name by a Rust leaf of its target
\* class -- the mapping must render T[N] exactly as the tool renders T[M].
RECURSIVE Subst(_)
Subst(t) ==
    CASE t.k = "mapped" ->
            [k |-> "leaf", c |-> (CASE t.to = "string" -> "str" [] t.to = "number" -> "num" [] t.to = "boolean" -> "bool")]
      [] t.k \in {"leaf", "named"} -> t
      [] t.k \in {"opt", "vec", "hset", "bset", "ref", "res1", "chan"} -> [k |-> t.k, a |-> Subst(t.a)]
      [] t.k \in {"hmap", "bmap", "res"} -> [k |-> t.k, a |-> Subst(t.a), b |-> Subst(t.b)]
      [] t.k = "tup" -> [k |-> "tup", ts |-> [i \in DOMAIN t.ts |-> Subst(t.ts[i])]]

RECURSIVE Depth(_)
Depth(t) ==
    CASE t.k \in {"leaf", "named", "mapped"} -> 0
      [] t.k \in {"opt", "vec", "hset", "bset", "ref", "res1", "chan"} -> 1 + Depth(t.a)
      [] t.k \in {"hmap", "bmap", "res"} ->
            1 + (IF Depth(t.a) > Depth(t.b) THEN Depth(t.a) ELSE Depth(t.b))
      [] t.k = "tup" ->
            1 + (LET ds == {Depth(t.ts[i]) : i \in DOMAIN t.ts}
                 IN CHOOSE m \in ds : \A d \in ds : d <= m)

-----------------------------------------------------------------------------
(* One-hole contexts: the constructor positions a type can sit in (used by  *)
(* the generators of C05/C10/C18 and by the edges of type graphs, C07/C09)  *)

L(cl) == [k |-> "leaf", c |-> cl]
Named == [k |-> "named", n |-> "N"]

Ctxs == {"opt", "vec", "hset", "bset", "ref", "res1",
         "hmapv", "bmapv", "hmapk", "bmapk", "resok", "reserr",
         "t1", "t2a", "t2b", "t3a", "t3b", "t3c", "t4a", "t4b", "t4c", "t4d"}

Apply(cx, t) ==
    CASE cx \in {"opt", "vec", "hset", "bset", "ref", "res1"} -> [k |-> cx, a |-> t]
      [] cx = "hmapv"  -> [k |-> "hmap", a |-> L("str"), b |-> t]
      [] cx = "bmapv"  -> [k |-> "bmap", a |-> L("str"), b |-> t]
      [] cx = "hmapk"  -> [k |-> "hmap", a |-> t, b |-> L("num")]
      [] cx = "bmapk"  -> [k |-> "bmap", a |-> t, b |-> L("bool")]
      [] cx = "resok"  -> [k |-> "res", a |-> t, b |-> L("str")]
      [] cx = "reserr" -> [k |-> "res", a |-> L("num"), b |-> t]
      [] cx = "t1"  -> [k |-> "tup", ts |-> <<t>>]            \* (T,) - serde: a one-element array
      [] cx = "t2a" -> [k |-> "tup", ts |-> <<t, L("num")>>]
      [] cx = "t2b" -> [k |-> "tup", ts |-> <<L("str"), t>>]
      [] cx = "t3a" -> [k |-> "tup", ts |-> <<t, L("num"), L("bool")>>]
      [] cx = "t3b" -> [k |-> "tup", ts |-> <<L("str"), t, L("bool")>>]
      [] cx = "t3c" -> [k |-> "tup", ts |-> <<L("str"), L("num"), t>>]
      [] cx = "t4a" -> [k |-> "tup", ts |-> <<t, L("num"), L("bool"), L("str")>>]
      [] cx = "t4b" -> [k |-> "tup", ts |-> <<L("str"), t, L("bool"), L("num")>>]
      [] cx = "t4c" -> [k |-> "tup", ts |-> <<L("str"), L("num"), t, L("bool")>>]
      [] cx = "t4d" -> [k |-> "tup", ts |-> <<L("str"), L("num"), L("bool"), t>>]

\* serde_json object keys must be strings or integers
\* (strings, integers and unit-variant enums -- a named project type -- are valid map keys)
CtxOK(cx, t) == cx \in {"hmapk", "bmapk"} => ((t.k = "leaf" /\ t.c \in {"str", "num"}) \/ t.k = "named")


-----------------------------------------------------------------------------
(* TypeScript side: what an emitted (parsed) type AST denotes.  The AST is  *)
(* produced by the harness parser with TypeScript's own precedence, so      *)
(* `A | null[]' arrives as union(A, arr(null)).                             *)

IsNullKw(t) == t.k = "kw" /\ t.n \in {"null", "undefined", "void"}

RECURSIVE ShapeOfTs(_)
ShapeOfTs(t) ==
    CASE t.k = "kw" ->
            (CASE t.n = "string"  -> SStr
               [] t.n = "number"  -> SNum
               [] t.n = "boolean" -> SBool
               [] t.n \in {"null", "undefined", "void"} -> SNull
               [] OTHER -> SOther(t.n))
      [] t.k = "arr"   -> SArr(ShapeOfTs(t.e))
      [] t.k = "tuple" -> STup([i \in DOMAIN t.ts |-> ShapeOfTs(t.ts[i])])
      [] t.k = "ref" ->
            (CASE t.n = "Array" /\ t.q = "" /\ Len(t.args) = 1 -> SArr(ShapeOfTs(t.args[1]))
               [] t.n = "Record" /\ t.q = "" /\ Len(t.args) = 2 ->
                        SRec(ShapeOfTs(t.args[1]), ShapeOfTs(t.args[2]))
               [] Len(t.args) = 0 -> SRef(t.n)        \* qualifier is C02's business
               [] OTHER -> SOther("generic reference"))
      [] t.k = "union" ->
            LET nonnull == SelectSeq(t.ts, LAMBDA x : ~IsNullKw(x)) IN
            IF Len(nonnull) = Len(t.ts) THEN [k |-> "union", n |-> Len(t.ts)]
            ELSE IF Len(nonnull) = 1 THEN SNullable(ShapeOfTs(nonnull[1]))
            ELSE IF Len(nonnull) = 0 THEN SNull
            ELSE [k |-> "union", n |-> Len(t.ts)]
      [] t.k = "obj" ->
            IF Len(t.ms) = 0 /\ Len(t.idx) = 1
            THEN SRec(ShapeOfTs(t.idx[1].kt), ShapeOfTs(t.idx[1].vt))
            ELSE SOther("object type")
      [] t.k \in {"missing", "unparsable"} -> [k |-> t.k]
      [] OTHER -> SOther(t.k)

-----------------------------------------------------------------------------
(* Zod side: the JSON shape a schema expression accepts/produces.  The AST  *)
(* is the harness parser's expression AST; identifiers that name a schema   *)
(* constant arrive as [k |-> "schemaref", n, alias] where alias is the type *)
(* alias declared as z.infer<typeof n> in the same module ("" if none).     *)

IsZ(e) == e.k = "id" /\ e.n = "z"
IsZCoerce(e) == e.k = "member" /\ IsZ(e.o) /\ e.p = "coerce"

\* methods that refine but do not change the JSON shape
ShapeNeutral == {"min", "max", "length", "email", "url", "uuid", "regex", "int", "positive",
                 "nonnegative", "negative", "nonpositive", "finite", "safe", "nonempty", "trim",
                 "describe", "refine", "superRefine", "brand", "readonly", "strict", "passthrough",
                 "strip", "gt", "gte", "lt", "lte", "startsWith", "endsWith", "includes", "datetime",
                 "default", "catch", "size"}

RECURSIVE ShapeOfZod(_)
ShapeOfZod(e) ==
    CASE e.k = "schemaref" -> IF e.alias = "" THEN [k |-> "schemaref", n |-> e.n] ELSE SRef(e.alias)
      [] e.k = "call" /\ e.f.k = "member" ->
            LET m == e.f.p
                o == e.f.o
            IN
            IF IsZ(o) THEN
                (CASE m = "string"  -> SStr
                   [] m = "number"  -> SNum
                   [] m = "boolean" -> SBool
                   [] m \in {"void", "null", "undefined"} -> SNull
                   [] m = "array" /\ Len(e.as) = 1 -> SArr(ShapeOfZod(e.as[1]))
                   [] m = "set" /\ Len(e.as) = 1 -> [k |-> "set", e |-> ShapeOfZod(e.as[1])]
                   [] m = "record" /\ Len(e.as) = 2 -> SRec(ShapeOfZod(e.as[1]), ShapeOfZod(e.as[2]))
                   [] m = "record" /\ Len(e.as) = 1 -> SRec(SStr, ShapeOfZod(e.as[1]))
                   [] m = "tuple" /\ Len(e.as) = 1 /\ e.as[1].k = "arrlit" ->
                            STup([i \in DOMAIN e.as[1].es |-> ShapeOfZod(e.as[1].es[i])])
                   [] m = "lazy" /\ Len(e.as) = 1 /\ e.as[1].k = "arrow" /\ e.as[1].body.k # "block" ->
                            ShapeOfZod(e.as[1].body)
                   [] m = "custom" /\ Len(e.targs) = 1 -> ShapeOfTs(e.targs[1])
                   [] m = "union" -> [k |-> "union", n |-> 0]
                   [] m = "enum" -> [k |-> "enum"]
                   [] m = "object" -> SOther("inline object")
                   [] OTHER -> SOther(m))
            ELSE IF IsZCoerce(o) THEN
                (CASE m = "string"  -> SStr
                   [] m = "number"  -> SNum
                   [] m = "boolean" -> SBool
                   [] OTHER -> SOther(m))
            ELSE \* a method applied to a schema
                (CASE m = "optional" -> SOptional(ShapeOfZod(o))
                   [] m = "nullable" -> SNullable(ShapeOfZod(o))
                   [] m = "nullish"  -> SNullable(ShapeOfZod(o))
                   [] m = "array"    -> SArr(ShapeOfZod(o))
                   [] m = "or"       -> [k |-> "union", n |-> 2]
                   [] m \in ShapeNeutral -> ShapeOfZod(o)
                   [] OTHER -> SOther(m))
      [] e.k \in {"missing", "unparsable"} -> [k |-> e.k]
      [] OTHER -> SOther(e.k)

-----------------------------------------------------------------------------
(* Comparison.  JSON object keys are strings on the wire; an integer key    *)
(* type may be described as number or string.  Everything else is exact.    *)

RECURSIVE ShapeEq(_, _)
ShapeEq(want, got) ==
    IF want.k # got.k THEN FALSE
    ELSE CASE want.k \in {"str", "num", "bool", "null"} -> TRUE
           [] want.k = "tyref" -> want.n = got.n
           [] want.k \in {"nullable", "arr"} -> ShapeEq(want.e, got.e)
           [] want.k = "rec" ->
                /\ ShapeEq(want.v, got.v)
                /\ \/ ShapeEq(want.key, got.key)
                   \/ (want.key.k = "num" /\ got.key.k = "str")
           [] want.k = "tup" ->
                /\ Len(want.es) = Len(got.es)
                /\ \A i \in DOMAIN want.es : ShapeEq(want.es[i], got.es[i])
           [] OTHER -> FALSE

\* C10: the Zod rendering of a Rust item describes the same structure as the
\* plain rendering, "with Option rendered as omittable": optional(S) on the
\* Zod side corresponds to nullable(S) on the plain side.
RECURSIVE ZodMatchesPlain(_, _)
ZodMatchesPlain(z, p) ==
    IF z.k = "optional" \/ (z.k = "nullable" /\ p.k = "nullable")
    THEN \/ p.k = "nullable" /\ ZodMatchesPlain(z.e, p.e)
         \/ p.k = "null" /\ z.e.k = "null"              \* Option<()>: both values are null
    ELSE IF z.k # p.k THEN FALSE
    ELSE CASE z.k \in {"str", "num", "bool", "null"} -> TRUE
           [] z.k = "tyref" -> z.n = p.n
           [] z.k = "arr" -> ZodMatchesPlain(z.e, p.e)
           [] z.k = "rec" ->
                /\ ZodMatchesPlain(z.v, p.v)
                /\ (ZodMatchesPlain(z.key, p.key) \/ (z.key.k \in {"num", "str"} /\ p.key.k \in {"num", "str"}))
           [] z.k = "tup" ->
                /\ Len(z.es) = Len(p.es)
                /\ \A i \in DOMAIN z.es : ZodMatchesPlain(z.es[i], p.es[i])
           [] OTHER -> FALSE
=============================================================================
