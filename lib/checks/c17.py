"""C17 - a failed run is never remembered as up to date.

Model checking : Pipeline.tla with fault plans (failopen / failwrite / crash at every file of the write
                 sequence incl. .typecache and the two dependency-graph files), every position, both drivers:
                 C17_FailureReported, C17_CacheNotNewer (checked in EVERY state, mid-run and after a crash),
                 C08_SuccessMeansCurrent for the recovery runs; intended and as-built knobs
                 (CacheSavedLast, CacheDroppedFirst, CacheLooksAtFiles).
Replay (fault enumeration on the real binaries): TLC enumerates the fault histories (a first run or a run
                 after an output-changing edit hit by exactly one fault, then recovery runs); each is executed
                 with strace fault injection on exactly that file (openat->EACCES, write->ENOSPC, SIGKILL at
                 write); after every failed run a copy of the sandbox is probed with a non-forced run
                 ("would it report up to date?").
Trace validation: Trace_Pipeline.tla.
"""
import json
import os
import random
import shutil
import time

from lib import common as C
from lib import pipecheck as P

PROP = "C17"


def has_fault_before(hist, run_idx):
    n = -1
    for h in hist:
        if h[0] == "run":
            n += 1
            if h[4] != "none" and n <= run_idx:
                return True
            if n >= run_idx:
                break
    return False


def fault_of(hist):
    for h in hist:
        if h[0] == "run" and h[4] != "none":
            return "%s@%s" % (h[4], h[5])
    return "none"


def run(tier, seed, only=None):
    t0 = time.time()
    d = C.scratch("c17")
    verdicts = C.Verdicts(PROP)
    mc, states, transitions = P.model_check()
    cases = []
    total = {}
    if only is not None:
        cases = only
    else:
        rnd = random.Random(seed)
        for drv in ("cli", "build"):
            hs, g = P.gen_histories("Gen_Pipeline_fault_%s" % drv, timeout=3000)
            hs = [h for h in hs if any(x[0] == "run" and x[4] != "none" for x in h["h"])]
            total[drv] = len(hs)
            if tier == "quick":
                # every (fault kind, file, position) at least once, then a seeded sample
                seenk = set()
                pick = []
                rnd.shuffle(hs)
                for h in hs:
                    pos = [i for i, x in enumerate([y for y in h["h"] if y[0] == "run"]) if x[4] != "none"][0]
                    k = (fault_of(h["h"]), pos, h["viz"])
                    if k not in seenk:
                        seenk.add(k)
                        pick.append(h)
                hs = pick[:90]
            for i, h in enumerate(hs):
                cases.append({"id": "%s-fault-%d" % (drv, i), "h": h["h"], "ev": h["ev"], "viz": h["viz"], "driver": drv})
            # the same with the faulted run FORCED (--force, force: true, both): after an earlier success, over
            # unchanged and over edited sources
            hf, gf = P.gen_histories("Gen_Pipeline_forcedfault_%s" % drv, timeout=3000)
            hf = [h for h in hf if any(x[0] == "run" and x[4] != "none" for x in h["h"])]
            total[drv + "-forced"] = len(hf)
            if tier == "quick":
                seenk = set()
                pick = []
                rnd.shuffle(hf)
                for h in hf:
                    runs = [y for y in h["h"] if y[0] == "run"]
                    pos = [i for i, x in enumerate(runs) if x[4] != "none"][0]
                    if pos == 0:
                        continue      # a first run has no record to keep
                    fr = runs[pos]
                    edited = any(y[0] != "run" for y in h["h"])
                    k = (fault_of(h["h"]), pos, bool(fr[2]), bool(fr[3]), edited)
                    if k not in seenk:
                        seenk.add(k)
                        pick.append(h)
                hf = pick[:120]
            else:
                # all histories with an earlier success (a first run has no record to keep), seeded sample of 1 500 per driver
                hf = [h for h in hf if [i for i, x in enumerate([y for y in h["h"] if y[0] == "run"]) if x[4] != "none"][0] > 0]
                hf = rnd.sample(hf, min(1500, len(hf)))
            for i, h in enumerate(hf):
                cases.append({"id": "%s-forcedfault-%d" % (drv, i), "h": h["h"], "ev": h["ev"], "viz": h["viz"], "driver": drv})
    allev, info = P.replay_all(d, cases)
    mism = P.validate(d, allev)
    by_id = {c["id"]: c for c in cases}
    first = {}
    for line, p, case, what in sorted(mism, key=lambda m: m[0]):
        if case not in by_id:
            continue
        c = by_id[case]
        ridx = P.run_index_of_line(info, case, line)
        if p == PROP or (p in ("C08",) and has_fault_before(c["h"], ridx)):
            first.setdefault(case, (line, what, ridx, p))
    for case, (line, what, ridx, p) in sorted(first.items()):
        c = by_id[case]
        upto = P.prefix_upto_run(c["h"], ridx)
        kind = what[0] if isinstance(what, list) else str(what)
        verdicts.reject("driver=%s fault=%s viz=%s what=%s" % (c["driver"], fault_of(c["h"]), c["viz"], kind),
                        "at=%s" % P.hist_key(c["h"], upto),
                        "%s: %s %s (history %s)" % (c["driver"], kind, what[1:] if isinstance(what, list) else "", P.hist_key(c["h"], upto)),
                        {"history": c["h"], "ev": c["ev"], "viz": c["viz"], "driver": c["driver"]})
    # which faults actually fired on the real binary (an injected write failure that never happened is vacuous)
    fired = 0
    for cid, inf in info.items():
        if any(e["event"] == "Sys" and not e["ok"] and e["where"] == "out" for e in inf["events"]) or \
           any(e["event"] == "RunEnd" and e["status"] in ("err", "killed") for e in inf["events"]):
            fired += 1
    drift = []
    nruns = 0
    for cid, inf in info.items():
        for i, cm in enumerate(inf["cmp"]):
            nruns += 1
            if cm["predicted"] != cm["real"]:
                drift.append({"case": cid, "run": i, "predicted": cm["predicted"], "real": cm["real"], "history": P.hist_key(by_id[cid]["h"])})
    rc = verdicts.finish()
    kinds = sorted({fault_of(c["h"]) for c in cases})
    C.write_evidence(PROP, tier, seed, "fault_enumeration", {
        "evaluations": len(cases),
        "distinct_nontrivial": fired,
        "rule": "one evaluation = one TLC-enumerated fault history (generation or edit+generation hit by one of failopen/failwrite/crash "
                "at one file of the write sequence, then recovery runs) executed on the real CLI / build driver with strace fault injection; "
                "non-trivial = the injected fault actually fired (a write failed or the process was killed)",
        "samples": [P.hist_key(c["h"]) for c in cases[:: max(1, len(cases) // 6)][:6]],
        "fault_points": kinds,
        "histories_enumerated_by_tlc": total,
        "states": states, "transitions": transitions, "model_checking_runs": mc,
        "traces_validated_against_impl": len(cases), "real_runs": nruns,
        "rejected_behaviours": len(first), "known_findings_matched": len(verdicts.known_hit),
        "asbuilt_drift": {"runs_compared": nruns, "mismatching": len(drift), "examples": drift[:8]},
        "exhaustive": tier == "thorough",
    }, time.time() - t0, assumptions=["strace -P <file> -e inject=... makes exactly that file's open/write fail or kills the process there",
                                      "'would skip' is observed by running a non-forced CLI run on a copy of the sandbox"],
        violations=len(verdicts.violations))
    shutil.rmtree(d, ignore_errors=True)
    return rc


def replay(path, seed):
    obj = json.load(open(path))
    c = obj["case"]
    return run("quick", seed, only=[{"id": "%s-fault-0" % c["driver"], "h": c["history"], "ev": c["ev"], "viz": c["viz"], "driver": c["driver"]}])
