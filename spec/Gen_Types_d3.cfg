INIT Init
NEXT Next
CONSTANTS MaxDepth = 3
 LeafMode = "plain"
 WithPairs = TRUE
INVARIANT Emit
CHECK_DEADLOCK FALSE
