----------------------------- MODULE Trace_Types -----------------------------
(***************************************************************************)
(* Trace validation for the type-translation properties.  Each event is an *)
(* observation of the real generator's output for one Rust type at one     *)
(* translation site in one mode; TLC judges it with the TypeLang operators.*)
(*                                                                         *)
(*  Translate   (C05): ShapeEq(Shape(rust), ShapeOfTs(ts) | ShapeOfZod(zod))*)
(*  ZodVsPlain  (C10): ZodMatchesPlain(ShapeOfZod(zod), ShapeOfTs(ts))     *)
(*  Mapped      (C18): as Translate, rust contains mapped leaves; plus the *)
(*                     mapped names occur nowhere (declared/ referenced)   *)
(***************************************************************************)
EXTENDS TypeLang, Json, IOUtils

Rec == ndJsonDeserialize(IOEnv.TRACE)

VARIABLE l

AsSet(s) == {s[i] : i \in DOMAIN s}

Got(e) == IF e.lang = "ts" THEN ShapeOfTs(e.ts) ELSE ShapeOfZod(e.zod)

TranslateOk(e) == ShapeEq(Shape(e.rust), Got(e))

ZodVsPlainOk(e) == ZodMatchesPlain(ShapeOfZod(e.zod), ShapeOfTs(e.ts))

\* the rendering of T[N] under the mapping denotes what the tool's rendering of T[M] denotes
GotSubst(e) == IF e.lang = "ts" THEN ShapeOfTs(e.pts) ELSE ShapeOfZod(e.pzod)
\* generic TypeScript names a rendering may mention without declaring them
TsBuiltinNames == {"Record", "Array", "Map", "Set", "Partial", "Promise", "Channel", "z"}
MappedOk(e) ==
    /\ Got(e) = GotSubst(e)
    /\ AsSet(e.declared) \cap MappedNames(e.rust) = {}
    /\ AsSet(e.referenced) \cap MappedNames(e.rust) = {}
    \* "rendered as M": the targets are builtin types, so whatever name the rendering still refers to is a declared
    \* project type (a target qualified as if it were a project type, `types.string`, is not M)
    /\ AsSet(e.referenced) \subseteq AsSet(e.declared) \cup TsBuiltinNames

\* coarse signature of what was observed instead (for known-finding matching)
GotKind(e) ==
    IF e.event = "ZodVsPlain" THEN ShapeOfZod(e.zod).k
    ELSE IF e.event \in {"SameDecl", "DeclNames", "Keys", "ModesAgree"} THEN "differs"
    ELSE IF e.event = "Mapped" THEN (IF Got(e) # GotSubst(e) THEN Got(e).k
                                     ELSE IF ~(AsSet(e.referenced) \subseteq AsSet(e.declared) \cup TsBuiltinNames) THEN "undeclared-ref"
                                     ELSE "same")
    ELSE LET g == Got(e) w == Shape(e.rust) IN
         IF g.k = "other" THEN g.why ELSE IF g.k = w.k THEN "deep" ELSE g.k

Judge(e) ==
    CASE e.event = "Translate"  -> TranslateOk(e)
      [] e.event = "ZodVsPlain" -> ZodVsPlainOk(e)
      [] e.event = "Mapped"     -> MappedOk(e)
      [] e.event = "SameDecl"   -> e.a = e.b
      \* C10 at the sites where both modes emit a TypeScript type (return, channel message, event payload):
      \* the two renderings of one Rust item denote the same shape and mention the same names
      [] e.event = "ModesAgree" -> ShapeOfTs(e.none) = ShapeOfTs(e.zod) /\ AsSet(e.nnames) = AsSet(e.znames)
      [] e.event = "DeclNames"  -> AsSet(e.none) = AsSet(e.zod)
      [] e.event = "Keys"       -> AsSet(e.none) = AsSet(e.zod)
      [] OTHER -> FALSE

TraceInit == l = 1
TraceNext ==
    /\ l <= Len(Rec)
    /\ IF Judge(Rec[l]) THEN TRUE ELSE PrintT(<<"MISMATCH", l, Rec[l].event, Rec[l].case, GotKind(Rec[l])>>)
    /\ l' = l + 1
TraceSpec == TraceInit /\ [][TraceNext]_l

TraceAccepted ==
    LET d == TLCGet("stats").diameter IN
    IF d - 1 = Len(Rec) THEN PrintT(<<"TRACE-CONSUMED", Len(Rec)>>)
    ELSE PrintT(<<"TRACE-STUCK", d, Len(Rec)>>) /\ FALSE
=============================================================================
