INIT Init
NEXT Next
CONSTANTS MaxDepth = 3
 WithPairs = TRUE
INVARIANT Emit
CHECK_DEADLOCK FALSE
