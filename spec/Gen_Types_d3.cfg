INIT Init
NEXT Next
CONSTANTS MaxDepth = 3
 ExtraLeaves <- NoExtra
 LeafMode = "plain"
 WithPairs = TRUE
INVARIANT Emit
CHECK_DEADLOCK FALSE
