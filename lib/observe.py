"""Observation: generated output directory -> parsed modules -> the declarations a property talks about.

Nothing here judges; it locates declarations by following references the way a TypeScript
reader would (function parameter annotation -> declared type -> members; alias declared as
z.infer<typeof S> -> schema constant S -> z.object keys), so that a generator refactoring which
keeps the meaning of the output keeps the observation.
"""
import os

from lib import tsparse

MISSING = {"k": "missing"}
NONE = {"k": "none"}


class Module:
    def __init__(self, name, text):
        self.name = name
        self.text = text
        self.parsed = tsparse.parse_module(text)
        self.items = self.parsed["items"]
        self.errors = self.parsed["errors"]
        self.by_name = {}
        for it in self.items:
            n = it.get("n")
            if n:
                self.by_name.setdefault(n, []).append(it)

    def decls(self, name, kinds=None):
        return [i for i in self.by_name.get(name, []) if kinds is None or i["k"] in kinds]

    def first(self, name, kinds=None):
        d = self.decls(name, kinds)
        return d[0] if d else None

    def broken(self, name):
        """an item that failed to parse whose (guessed) declared name starts with `name`"""
        for it in self.items:
            if it["k"] == "unparsable" and it.get("n") and (it["n"] == name or it["n"].startswith(name)):
                return it
        return None


def infer_target(t):
    """z.infer<typeof S> / z.output / z.input -> 'S' else None"""
    if t.get("k") == "ref" and t.get("q") == "z" and t.get("n") in ("infer", "output", "input", "TypeOf") \
            and len(t.get("args", [])) == 1 and t["args"][0].get("k") == "typeof":
        return t["args"][0]["n"]
    return None


def unwrap_zod_object(e):
    """Walk down method chains to the z.object({...}) call; returns the objlit or None."""
    cur = e
    for _ in range(50):
        if cur.get("k") != "call":
            return None
        f = cur["f"]
        if f.get("k") != "member":
            return None
        if f["o"].get("k") == "id" and f["o"].get("n") == "z":
            if f["p"] in ("object", "strictObject", "looseObject") and cur["as"] and cur["as"][0].get("k") == "objlit":
                return cur["as"][0]
            return None
        cur = f["o"]
    return None


def unwrap_zod_enum(e):
    """z.enum([..literals..]) -> list of string nodes, else None"""
    cur = e
    for _ in range(50):
        if cur.get("k") != "call" or cur["f"].get("k") != "member":
            return None
        f = cur["f"]
        if f["o"].get("k") == "id" and f["o"].get("n") == "z":
            if f["p"] in ("enum", "literal"):
                if f["p"] == "literal":
                    return [cur["as"][0]] if cur["as"] and cur["as"][0].get("k") == "str" else None
                if cur["as"] and cur["as"][0].get("k") == "arrlit":
                    es = cur["as"][0]["es"]
                    if all(x.get("k") == "str" for x in es):
                        return es
            if f["p"] == "union" and cur["as"] and cur["as"][0].get("k") == "arrlit":
                out = []
                for x in cur["as"][0]["es"]:
                    sub = unwrap_zod_enum(x)
                    if sub is None:
                        return None
                    out.extend(sub)
                return out
            return None
        if f["p"] == "or":
            a = unwrap_zod_enum(f["o"])
            b = unwrap_zod_enum(cur["as"][0]) if cur["as"] else None
            if a is None or b is None:
                return None
            return a + b
        cur = f["o"]
    return None


class Bindings:
    """All generated modules of one output directory."""

    FILES = ("types.ts", "commands.ts", "events.ts", "index.ts")

    def __init__(self, outdir=None, texts=None):
        self.mods = {}
        if texts is None:
            texts = {}
            for f in self.FILES:
                p = os.path.join(outdir, f)
                if os.path.isfile(p):
                    texts[f] = open(p, encoding="utf8", errors="replace").read()
        for f, t in texts.items():
            if f.endswith(".ts"):
                self.mods[f] = Module(f, t)
        self.types = self.mods.get("types.ts")
        self.commands = self.mods.get("commands.ts")
        self.events = self.mods.get("events.ts")
        self.index = self.mods.get("index.ts")
        self.alias_of = {}      # schema const -> alias name declared as z.infer<typeof const>
        self.consts = set()
        if self.types:
            for it in self.types.items:
                if it["k"] == "alias":
                    tgt = infer_target(it["t"])
                    if tgt:
                        self.alias_of.setdefault(tgt, it["n"])
                if it["k"] == "const":
                    self.consts.add(it["n"])

    def parse_errors(self):
        res = []
        for f, m in self.mods.items():
            for e in m.errors:
                res.append(dict(e, file=f))
        return res

    # ---- schema expression annotation
    def annotate(self, e):
        """Replace identifiers naming schema constants by schemaref nodes (recursively)."""
        if isinstance(e, list):
            return [self.annotate(x) for x in e]
        if not isinstance(e, dict):
            return e
        if e.get("k") == "id" and e.get("n") in self.consts:
            return {"k": "schemaref", "n": e["n"], "alias": self.alias_of.get(e["n"], "")}
        return {k: self.annotate(v) for k, v in e.items()}

    # ---- declared object types
    def members_of_type(self, name, depth=0):
        """Resolve a type name declared in types.ts to its members.
        -> dict(kind=..., members={key: {t, zod, opt, quoted, kcs}}, order=[keys], index=bool, dup=[keys]) or None"""
        if not self.types or depth > 5:
            return None
        d = self.types.first(name, ("interface", "alias"))
        if d is None:
            br = self.types.broken(name)
            if br is not None:
                return {"kind": "unparsable", "members": {}, "order": [], "index": False, "dups": [], "msg": br["msg"]}
            return None
        res = {"kind": d["k"], "members": {}, "order": [], "index": False, "dups": []}

        def add(key, rec):
            if key in res["members"]:
                res["dups"].append(key)
            else:
                res["order"].append(key)
            res["members"][key] = rec

        def add_obj(obj):
            for m in obj["ms"]:
                add(m["key"], {"t": m["t"], "zod": NONE, "opt": m["opt"], "quoted": m["quoted"], "kcs": m["kcs"]})
            if obj["idx"]:
                res["index"] = True

        def add_schema(sname):
            c = self.types.first(sname, ("const",))
            if c is None:
                if self.types.broken(sname) is not None:
                    res["kind"] = "unparsable"
                    res["msg"] = self.types.broken(sname)["msg"]
                return False
            ol = unwrap_zod_object(c["init"])
            if ol is None:
                return False
            for p in ol["ps"]:
                if p["k"] != "prop":
                    continue
                add(p["key"], {"t": NONE, "zod": self.annotate(p["v"]), "opt": False, "quoted": p["quoted"], "kcs": p["kcs"]})
            return True

        if d["k"] == "interface":
            for ex in d["ext"]:
                tgt = infer_target(ex)
                if tgt:
                    add_schema(tgt)
                elif ex.get("k") == "ref" and not ex.get("args"):
                    sub = self.members_of_type(ex["n"], depth + 1)
                    if sub:
                        for k in sub["order"]:
                            add(k, sub["members"][k])
            add_obj(d["body"])
            return res
        t = d["t"]
        tgt = infer_target(t)
        if tgt:
            res["kind"] = "zod"
            res["schema"] = tgt
            if add_schema(tgt):
                return res
            return res
        if t.get("k") == "obj":
            add_obj(t)
            return res
        res["kind"] = "alias-other"
        res["t"] = t
        return res

    def enum_literals(self, name):
        """String literals a declared enum-like type consists of -> (list of str nodes, how) or (None, why)"""
        if not self.types:
            return None, "no types.ts"
        d = self.types.first(name, ("alias",))
        if d is not None:
            t = d["t"]
            tgt = infer_target(t)
            if tgt:
                c = self.types.first(tgt, ("const",))
                if c is not None:
                    lits = unwrap_zod_enum(c["init"])
                    if lits is not None:
                        return lits, "zod"
                return None, "schema not an enum"
            if t.get("k") == "lit":
                return [t], "ts"
            if t.get("k") == "union" and all(x.get("k") == "lit" for x in t["ts"]):
                return t["ts"], "ts"
            return None, "alias not a literal union"
        c = self.types.first(name + "Schema", ("const",))
        if c is not None:
            lits = unwrap_zod_enum(c["init"])
            if lits is not None:
                return lits, "zod-noalias"
        return None, "missing"

    # ---- commands
    def command_fn(self, fname):
        if not self.commands:
            return None
        return self.commands.first(fname, ("function",))

    def command_broken(self, fname):
        if not self.commands:
            return None
        return self.commands.broken(fname)

    def params_of_fn(self, fn):
        """members of the declared type of the function's first parameter (if it is called params)"""
        if fn is None or not fn["ps"]:
            return None
        p0 = fn["ps"][0]
        if p0["n"] != "params":
            return None
        t = p0["t"]
        if t.get("k") == "ref":
            return self.members_of_type(t["n"])
        if t.get("k") == "obj":
            res = {"kind": "inline", "members": {}, "order": [], "index": bool(t["idx"]), "dups": []}
            for m in t["ms"]:
                res["members"][m["key"]] = {"t": m["t"], "zod": NONE, "opt": m["opt"], "quoted": m["quoted"], "kcs": m["kcs"]}
                res["order"].append(m["key"])
            return res
        return None

    def return_type_of_fn(self, fn):
        """T of the Promise<T> return annotation"""
        if fn is None:
            return MISSING
        r = fn["r"]
        if r.get("k") == "ref" and r.get("n") == "Promise" and len(r.get("args", [])) == 1:
            return r["args"][0]
        if r.get("k") == "none":
            return MISSING
        return {"k": "notpromise", "t": r}

    def invoke_call(self, fn):
        if fn is None:
            return None
        calls = [c for c in fn["calls"] if c.get("k") == "call" and c["f"].get("n") == "invoke"]
        return calls

    # ---- events
    def listener_fns(self):
        if not self.events:
            return []
        return [i for i in self.events.items if i["k"] == "function"]

    def listener_payload(self, fn):
        """payload type of handler: (payload: T) => void"""
        for p in fn["ps"]:
            if p["t"].get("k") == "fn" and p["t"]["ps"]:
                return p["t"]["ps"][0]["t"]
        return MISSING

    def listen_calls(self, fn):
        return [c for c in fn["calls"] if c.get("k") == "call" and c["f"].get("n") == "listen"]


# ----------------------------------------------------------------------------- Output.tla records

TYPE_KINDS = {"kw", "ref", "arr", "union", "inter", "tuple", "lit", "numlit", "boollit", "obj", "fn", "typeof",
              "op", "indexed", "member", "index", "param"}


def _refs(node, trefs, vrefs, lrefs, locals_, lazy=False):
    """collect type references, eager value references and lazy value references of an AST"""
    if isinstance(node, list):
        for x in node:
            _refs(x, trefs, vrefs, lrefs, locals_, lazy)
        return
    if not isinstance(node, dict):
        return
    k = node.get("k")
    tgt = lrefs if lazy else vrefs
    if k == "ref":
        trefs.append([node.get("q", ""), node["n"]])
        _refs(node.get("args", []), trefs, vrefs, lrefs, locals_, lazy)
        return
    if k == "typeof":
        tgt.append([node.get("q", ""), node["n"]])
        return
    if k == "id":
        if node["n"] not in locals_ and node["n"] not in ("undefined", "null", "this"):
            tgt.append(["", node["n"]])
        return
    if k == "member" and "o" in node and "p" in node and isinstance(node["o"], dict):
        o = node["o"]
        if o.get("k") == "id":
            if o["n"] not in locals_:
                tgt.append([o["n"], node["p"]])
            return
        _refs(o, trefs, vrefs, lrefs, locals_, lazy)
        return
    if k == "arrow":
        inner_locals = set(locals_) | set(node.get("ps", []))
        body = node.get("body", {})
        if body.get("k") == "block":
            _refs(body.get("calls", []), trefs, vrefs, lrefs, inner_locals, True)
        else:
            _refs(body, trefs, vrefs, lrefs, inner_locals, True)
        return
    if k == "fn":      # function TYPE: parameter names are not references
        for p in node.get("ps", []):
            _refs(p.get("t"), trefs, vrefs, lrefs, locals_, lazy)
        _refs(node.get("r"), trefs, vrefs, lrefs, locals_, lazy)
        return
    if k in ("prop", "member") and "key" in node:      # object literal property / object type member
        _refs(node.get("v"), trefs, vrefs, lrefs, locals_, lazy)
        _refs(node.get("t"), trefs, vrefs, lrefs, locals_, lazy)
        return
    for kk, v in node.items():
        if kk in ("k", "n", "q", "p", "key", "kcs", "cs", "raw", "v") and not isinstance(v, (dict, list)):
            continue
        if kk in ("kcs", "cs", "ps") and k != "objlit" and kk != "ps":
            continue
        if isinstance(v, (dict, list)):
            _refs(v, trefs, vrefs, lrefs, locals_, lazy)


def _uniq(pairs):
    seen = set()
    out = []
    for q, n in pairs:
        if (q, n) not in seen:
            seen.add((q, n))
            out.append({"q": q, "n": n})
    return out


def module_record(mod, fname):
    """parsed Module -> record of spec/Output.tla"""
    imports = []
    decls = []
    reexports = []
    for it in mod.items:
        k = it["k"]
        if k == "import":
            frm = it["from"]
            frm = frm[2:] if frm.startswith("./") else frm
            names = list(it["names"]) + ([it["default"]] if it.get("default") else [])
            imports.append({"ns": it.get("ns", ""), "names": names, "from": frm})
        elif k == "exportstar":
            frm = it["from"]
            reexports.append(frm[2:] if frm.startswith("./") else frm)
        elif k in ("interface", "alias", "const", "function"):
            trefs, vrefs, lrefs, brefs = [], [], [], []
            locals_ = set()
            if k == "interface":
                _refs(it["ext"], trefs, vrefs, lrefs, locals_)
                _refs(it["body"], trefs, vrefs, lrefs, locals_)
            elif k == "alias":
                _refs(it["t"], trefs, vrefs, lrefs, locals_)
            elif k == "const":
                _refs(it.get("ann"), trefs, vrefs, lrefs, locals_)
                _refs(it["init"], trefs, vrefs, lrefs, locals_)
            else:
                locals_ = {p["n"] for p in it["ps"]} | set(it.get("bodylocals", []))
                for p in it["ps"]:
                    _refs(p["t"], trefs, vrefs, lrefs, locals_)
                _refs(it["r"], trefs, vrefs, lrefs, locals_)
                # the body runs when the function is called: lazy references
                _refs(it["calls"], trefs, vrefs, lrefs, locals_, True)
                for a, b in it.get("bodyrefs", []):
                    if a not in locals_:
                        brefs.append([a, b])
            decls.append({"name": it["n"], "kind": k, "exported": bool(it.get("exported")),
                          "space": "type" if k in ("interface", "alias") else "value",
                          "trefs": _uniq(trefs), "vrefs": _uniq(vrefs), "lrefs": _uniq(lrefs), "brefs": _uniq(brefs),
                          "tparams": list(it.get("tps", [])), "locals": sorted(locals_)})
        elif k == "unparsable":
            decls.append({"name": it.get("n") or "?", "kind": "unparsable", "exported": True, "space": "value",
                          "trefs": [], "vrefs": [], "lrefs": [], "brefs": [], "tparams": [], "locals": []})
    return {"file": fname, "imports": imports, "decls": decls, "reexports": reexports}
