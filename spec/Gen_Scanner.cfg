INIT Init
NEXT Next
INVARIANT ModelOK
INVARIANT Emit
CHECK_DEADLOCK FALSE
