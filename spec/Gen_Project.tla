----------------------------- MODULE Gen_Project -----------------------------
(***************************************************************************)
(* Case generators for C03 (discovery), C07/C09 (type graphs), C12 (emit   *)
(* placements).  One REPLAY line per case; the harness packs many cases    *)
(* into one real project (distinct names per case).                        *)
(***************************************************************************)
EXTENDS Project, TypeLang, Json

CONSTANT Mode    \* "disc" | "graphs3" | "edges" | "emits"
VARIABLE c

\* ---- C03: a source file at a path class holding one attributed function
PathClasses == AcceptedPathClasses \cup RejectedPathClasses
Attrs == CommandAttrs \cup OtherAttrs
DiscCases ==
    { [kind |-> "disc", pc |-> pc, parsable |-> pb, attr |-> a, pos |-> p, vis |-> v, async |-> as] :
        pc \in PathClasses, pb \in BOOLEAN, a \in Attrs, p \in {"top", "mod", "impl"},
        v \in {"pub", "crate", "private"}, as \in BOOLEAN }

\* ---- C07/C09: type graphs
N3 == {"A", "B", "C"}
Node(n) == [k |-> "named", n |-> n]
\* all digraphs on three nodes, every edge through Vec (legal on cycles), every non-empty root set
Graphs3 ==
    { [kind |-> "graph", nodes |-> <<"A", "B", "C">>,
       edges |-> [n \in N3 |-> {[ctx |-> "vec", to |-> m, ty |-> Apply("vec", Node(m))] : m \in d[n]}],
       serde |-> [n \in N3 |-> TRUE],
       roots |-> {[site |-> "param", ctx |-> "direct", to |-> r, ty |-> Node(r)] : r \in rs}]
      : d \in [N3 -> SUBSET N3], rs \in (SUBSET N3) \ {{}} }

\* base shapes (acyclic) with ONE edge realised through each of the 21 contexts and each root site/ctx
Chain   == [A |-> {"B"}, B |-> {"C"}, C |-> {}]
Diamond == [A |-> {"B", "C"}, B |-> {"C"}, C |-> {}]
Fan     == [A |-> {"B", "C"}, B |-> {}, C |-> {}]
Shapes == {Chain, Diamond, Fan}
RootSites == {"param", "ret", "chan", "event", "err"}
EdgeCtxs == Ctxs \cup {"direct"}
Ty(cx, n) == IF cx = "direct" THEN Node(n) ELSE Apply(cx, Node(n))
EdgeCases ==
    { [kind |-> "graph", nodes |-> <<"A", "B", "C", "D">>,
       edges |-> [n \in {"A", "B", "C", "D"} |->
                    IF n = "D" THEN {}
                    ELSE {[ctx |-> (IF n = "A" /\ m = "B" THEN cx ELSE "direct"), to |-> m,
                           ty |-> Ty(IF n = "A" /\ m = "B" THEN cx ELSE "direct", m)] : m \in sh[n]}],
       serde |-> [n \in {"A", "B", "C", "D"} |-> n # "D" \/ sd],
       roots |-> {[site |-> rsite, ctx |-> rcx, to |-> "A", ty |-> Ty(rcx, "A")]}]
      : sh \in Shapes, cx \in EdgeCtxs, rsite \in RootSites, rcx \in {"direct", "opt", "vec", "hmapv", "t2b", "resok"},
        sd \in BOOLEAN }

\* ---- C12: emit placements
Placements == {"stmt", "let_init", "if_then", "if_else", "match_arm_expr", "match_arm_block", "loop", "while",
               "for", "nested_block", "try_op", "await", "unwrap_recv", "ok_recv", "closure", "nested_fn"}
Receivers == {"app", "window", "webview", "self_app", "self_window", "method_result", "handle", "other_field"}
Methods == {"emit", "emit_to"}
EmitCases == { [kind |-> "emit", placed |-> p, receiver |-> r, method |-> m, lit |-> li] :
                p \in Placements, r \in Receivers, m \in Methods, li \in BOOLEAN }

Space == CASE Mode = "disc"    -> DiscCases
           [] Mode = "graphs3" -> Graphs3
           [] Mode = "edges"   -> EdgeCases
           [] Mode = "emits"   -> EmitCases
Init == c \in Space
Next == UNCHANGED c

SetSeq(S) == IF S = {} THEN <<>> ELSE LET RECURSIVE F(_) F(T) == IF T = {} THEN <<>> ELSE LET x == CHOOSE x \in T : TRUE IN <<x>> \o F(T \ {x}) IN F(S)
Out(x) == IF x.kind = "graph"
          THEN [kind |-> "graph", nodes |-> x.nodes,
                edges |-> [n \in DOMAIN x.edges |-> SetSeq(x.edges[n])],
                serde |-> x.serde, roots |-> SetSeq(x.roots)]
          ELSE x
Emit == PrintT(<<"REPLAY", ToJson(Out(c))>>)
=============================================================================
