/* LD_PRELOAD shim: the process observes VERIF_EPOCH (seconds since the epoch) as its wall clock at start-up.
   The wall clock is part of the schedule C13 quantifies over ("apart from the timestamp comment"). */
#define _GNU_SOURCE
#include <dlfcn.h>
#include <stdlib.h>
#include <time.h>
#include <sys/time.h>

static long long offset(void) {
    static int init = 0;
    static long long off = 0;
    if (!init) {
        int (*real)(clockid_t, struct timespec *) = dlsym(RTLD_NEXT, "clock_gettime");
        const char *e = getenv("VERIF_EPOCH");
        struct timespec now;
        real(CLOCK_REALTIME, &now);
        if (e) off = atoll(e) - (long long)now.tv_sec;
        init = 1;
    }
    return off;
}

int clock_gettime(clockid_t id, struct timespec *ts) {
    int (*real)(clockid_t, struct timespec *) = dlsym(RTLD_NEXT, "clock_gettime");
    int rc = real(id, ts);
    if (rc == 0 && id == CLOCK_REALTIME) ts->tv_sec += offset();
    return rc;
}

int gettimeofday(struct timeval *tv, void *tz) {
    struct timespec ts;
    (void)tz;
    if (clock_gettime(CLOCK_REALTIME, &ts) != 0) return -1;
    if (tv) { tv->tv_sec = ts.tv_sec; tv->tv_usec = ts.tv_nsec / 1000; }
    return 0;
}

time_t time(time_t *t) {
    struct timespec ts;
    if (clock_gettime(CLOCK_REALTIME, &ts) != 0) return (time_t)-1;
    if (t) *t = ts.tv_sec;
    return ts.tv_sec;
}
