INIT Init
NEXT Next
CONSTANTS Mode = "attrs"
 MaxLen = 4
INVARIANT Emit
CHECK_DEADLOCK FALSE
