"""X03 (beyond the listed properties) - control flow of the generated command wrappers (validation, invoke, hooks).

spec/Wrapper.tla is a deterministic step machine of a wrapper call for each wrapper kind (plain mode; Zod mode
without parameters / with value parameters / with channels / with both) under an environment (validation outcome,
invoke outcome, each of the four hooks absent / present / throwing).  TLC model-checks the hook protocol
(`Wrapper!Protocol`: invoke only after successful validation and with the validated data, exactly one terminal
outcome, onSettled last and exactly once, onSuccess / onValidationError / onInvokeError exactly when their cause
occurred - for onInvokeError exact only when no hook throws, the as-built behaviour under throwing hooks is part of
the machine) over all 974 (kind, environment) pairs and prints the model's event log for each.
Conformance: the REAL CLI generates the wrappers of a four-command project in both modes; their bodies are parsed
(lib/tsstmt.py) and interpreted with JavaScript exception semantics under every environment; the observed events
are validated by Trace_Wrapper.tla step by step against the machine.  Not registered in MANIFEST.json.
"""
import json
import os
import shutil
import time

from lib import common as C
from lib import projcases as PC
from lib import tsparse, tsstmt

PROP = "X03"

SRC = PC.PRELUDE + """
#[derive(Serialize, Deserialize)]
pub struct Req {
    pub name: String,
}
#[tauri::command]
pub fn no_params() -> u8 { 0 }
#[tauri::command]
pub fn with_values(req: Req, count: Option<u32>) -> Req { req }
#[tauri::command]
pub fn with_channels(on_event: Channel<u32>, on_log: Channel<String>) {}
#[tauri::command]
pub fn with_both(app: tauri::AppHandle, req: Req, on_event: Channel<u32>, limit: u8, on_log: Channel<String>) -> Vec<Req> { vec![] }
"""
FN_OF = {"noparams": "noParams", "values": "withValues", "channels": "withChannels", "both": "withBoth"}


def bodies(text):
    head, chunks = tsparse.split_items(text)
    out = {}
    for c in chunks:
        body = tsparse.strip_trailing_comment(c)
        n = tsparse.guess_name(body)
        if n:
            out[n] = body
    return out


def run(tier, seed):
    t0 = time.time()
    d = C.scratch("x03")
    g = C.run_tlc("MC_Wrapper", "MC_Wrapper", workers=4, timeout=600)
    if not g.ok:
        raise C.ToolError("Wrapper model violates its protocol: %s\n%s" % (g.error, g.out[-1500:]))
    # negative controls: four mutants of the machine must each violate the protocol (it is not vacuous)
    controls = {}
    for v in ("no_zod_guard", "raw_params", "settled_on_success_only", "swallow"):
        n = C.run_tlc("MC_Wrapper", "MC_Wrapper_neg_" + v, workers=2, timeout=300)
        controls[v] = (not n.ok) and "ProtocolHolds" in (n.error or n.out)
        if not controls[v]:
            raise C.ToolError("negative control %s was not rejected by Wrapper!Protocol" % v)
    cases = g.json_lines("REPLAY")
    if len(cases) < 974:
        raise C.ToolError("wrapper case generation incomplete: %d" % len(cases))
    fns = {}
    for mode in ("zod", "none"):
        b, res, texts = PC.run_project(d, "w-" + mode, {"src/lib.rs": SRC}, mode=mode)
        if "commands.ts" not in texts:
            raise C.ToolError("no commands.ts in %s mode" % mode)
        fns[mode] = bodies(texts["commands.ts"])
    problems = []
    parsed = {}
    for mode in fns:
        for kind, fn in FN_OF.items():
            if fn not in fns[mode]:
                raise C.ToolError("wrapper %s not found in %s mode" % (fn, mode))
            try:
                parsed[(mode, kind)] = tsstmt.parse_function(fns[mode][fn])
            except tsstmt.Unsupported as ex:
                problems.append("wrapper %s (%s mode) has a shape the specification does not model: %s" % (fn, mode, ex))
    events = []
    for ci, c in enumerate(cases):
        kind = c["kind"]
        key = ("none", "values") if kind == "plain" else ("zod", kind)
        if key not in parsed:
            continue
        try:
            log = tsstmt.run(parsed[key], c["env"], has_hooks_param=(kind != "plain"))
        except tsstmt.Unsupported as ex:
            problems.append("wrapper of kind %s cannot be interpreted: %s" % (kind, ex))
            continue
        events.append({"event": "Call", "case": "call%d" % ci, "kind": kind, "env": c["env"], "what": "-", "arg": "-"})
        for e in log:
            events.append({"event": "Obs", "case": "call%d" % ci, "kind": kind, "env": c["env"], "what": e["what"], "arg": e["arg"]})
    n = len(events)
    # binding self-test: drop one event of an accepted call / change one argument -> exactly those calls are rejected
    extra = []
    good = [e for e in events if e["case"] == events[-1]["case"]]
    if len(good) >= 3:
        a = [dict(e, case="selftest-drop") for e in good]
        del a[1]
        bch = [dict(e, case="selftest-arg") for e in good]
        bch[-1] = dict(bch[-1], arg="data" if bch[-1]["arg"] != "data" else "zod")
        extra = a + bch
    p = os.path.join(d, "wrapper.ndjson")
    C.write_ndjson(p, events + extra)
    consumed, mism, r = C.validate_trace("Trace_Wrapper", "Trace_Wrapper", p, timeout=900)
    if not consumed:
        raise C.ToolError("wrapper trace not consumed\n" + r.out[-1500:])
    st = sorted({m[3] for m in mism if m[1] > n})
    if extra and st != ["selftest-arg", "selftest-drop"]:
        raise C.ToolError("binding self-test of Trace_Wrapper failed: %s" % st)
    real = [m for m in mism if m[1] <= n]
    for pr in problems[:10]:
        print("EXTRA-VIOLATION check=X03 %s" % pr)
    for m in real[:20]:
        print("EXTRA-VIOLATION check=X03 %s" % str(m)[:500])
    os.makedirs(os.path.join(C.WORK, "extra"), exist_ok=True)
    with open(os.path.join(C.WORK, "extra", "X03.json"), "w") as f:
        json.dump({"check": "X03", "model_states": g.distinct, "calls": len(cases), "events_validated": n, "rejected": len(real),
                   "unsupported": problems, "negative_controls_rejected": sorted(controls), "wall_s": round(time.time() - t0, 1)}, f, indent=1)
    shutil.rmtree(d, ignore_errors=True)
    return 1 if (real or problems) else 0


def replay(path, seed):
    return run("quick", seed)
