INIT Init
NEXT Next
CONSTANTS Nodes = {"T0","T1","T2"}
 MaxMult = 1
INVARIANT Emit
CHECK_DEADLOCK FALSE
