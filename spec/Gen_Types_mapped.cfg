INIT Init
NEXT Next
CONSTANTS MaxDepth = 2
 ExtraLeaves <- NoExtra
 LeafMode = "mapped"
 WithPairs = FALSE
INVARIANT Emit
CHECK_DEADLOCK FALSE
