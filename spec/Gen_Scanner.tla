----------------------------- MODULE Gen_Scanner -----------------------------
(* Case generator for X02: every directory chain of length <= 2 over the 48 directory kinds, and every chain of   *)
(* length 3 whose starting directory is not a project (so that the walk really climbs).  The model itself is      *)
(* checked here too: Detect satisfies NearestWins on every enumerated chain.                                       *)
EXTENDS Scanner, Json, TLC

VARIABLE c

Dirs == { [json |-> j, js |-> s, st |-> t, dev |-> d, pkg |-> p] :
            j \in BOOLEAN, s \in BOOLEAN, t \in {"none", "file", "dir"}, d \in {"none", "app", "notjson"}, p \in BOOLEAN }
\* dev only means something when tauri.conf.json exists
Kinds == {d \in Dirs : d.json \/ d.dev = "none"}
Plain == {d \in Kinds : ~IsProject(d)}

Chains == { <<a>> : a \in Kinds } \cup { <<a, b>> : a \in Kinds, b \in Kinds }
          \cup { <<a, b, e>> : a \in Plain, b \in Kinds, e \in Kinds }

Init == c \in Chains
Next == UNCHANGED c
ModelOK == NearestWins(c, Detect(c))
Emit == PrintT(<<"REPLAY", ToJson([chain |-> c])>>)
=============================================================================
