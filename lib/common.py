"""Shared plumbing for /verif/bin/check: building, running TLC, evidence, verdicts.

Exit codes of a check: 0 = property held on everything explored (known findings are
printed as KNOWN-FINDING lines), 1 = VIOLATION line printed, 2 = tool error.
"""
import hashlib
import json
import os
import threading
import re
import shutil
import subprocess
import sys
import time

VERIF = os.path.dirname(os.path.dirname(os.path.abspath(__file__)))
REPO = os.environ.get("VERIF_REPO", "/repo")
SPEC = os.path.join(VERIF, "spec")
WORK = os.path.join(VERIF, "work")
TARGET = os.path.join(WORK, "target")
HARNESS = os.path.join(VERIF, "harness")
EVIDENCE = os.path.join(VERIF, "evidence")
REPLAYS = os.path.join(VERIF, "replays")
KNOWN = os.path.join(VERIF, "known_findings.json")
TTH = os.path.join(TARGET, "debug", "tth")
CLI = os.path.join(TARGET, "debug", "cargo-tauri-typegen")
NCPU = os.cpu_count() or 4


class ToolError(Exception):
    pass


def log(*a):
    print(*a, file=sys.stderr, flush=True)


def sh(cmd, timeout=None, cwd=None, env=None, check=False, stdin=None):
    e = dict(os.environ)
    if env:
        e.update(env)
    p = subprocess.run(cmd, cwd=cwd, env=e, stdout=subprocess.PIPE, stderr=subprocess.PIPE,
                       timeout=timeout, input=stdin)
    if check and p.returncode != 0:
        raise ToolError("command failed (%d): %s\n%s" % (p.returncode, cmd, p.stderr.decode("utf8", "replace")[-4000:]))
    return p


_built = False


def build_all():
    """Rebuild the harness and the real CLI from /repo's current working tree (hooks on)."""
    global _built
    if _built:
        return
    os.makedirs(WORK, exist_ok=True)
    env = {"CARGO_NET_OFFLINE": "true"}
    t0 = time.time()
    lock = os.path.join(WORK, "build.lock")
    import fcntl
    with open(lock, "w") as lf:
        fcntl.flock(lf, fcntl.LOCK_EX)
        p = sh(["cargo", "build", "--offline", "--target-dir", TARGET], cwd=HARNESS, env=env, timeout=1800)
        if p.returncode != 0:
            raise ToolError("harness build failed:\n" + p.stderr.decode("utf8", "replace")[-6000:])
        p = sh(["cargo", "build", "--offline", "--config", os.path.join(HARNESS, ".cargo", "config.toml"),
                "--manifest-path", os.path.join(REPO, "Cargo.toml"), "--bin", "cargo-tauri-typegen", "--target-dir", TARGET],
               cwd=WORK, env=env, timeout=1800)
        if p.returncode != 0:
            raise ToolError("cli build failed:\n" + p.stderr.decode("utf8", "replace")[-6000:])
    log("[build] ok in %.1fs" % (time.time() - t0))
    _built = True


# ----------------------------------------------------------------------------- TLC

class TlcResult:
    def __init__(self, out, rc, wall):
        self.out = out
        self.rc = rc
        self.wall = wall
        self.generated = 0
        self.distinct = 0
        self.depth = 0
        m = re.search(r"(\d[\d,]*) states generated, (\d[\d,]*) distinct states found", out)
        if m:
            self.generated = int(m.group(1).replace(",", ""))
            self.distinct = int(m.group(2).replace(",", ""))
        m = re.search(r"depth of the complete state graph search is (\d+)", out)
        if m:
            self.depth = int(m.group(1))
        self.ok = ("Model checking completed. No error has been found." in out) or \
                  ("Finished in" in out and "Error:" not in out and rc == 0)
        self.error = None
        if not self.ok:
            m = re.search(r"Error: (.*)", out)
            self.error = m.group(1) if m else ("rc=%d" % rc)

    def tuples(self, tag):
        """Lines printed by PrintT(<<"TAG", ...>>) parsed into python lists."""
        res = []
        lines = self.out.splitlines()
        i = 0
        pat = re.compile(r'^<<\s*"%s"' % re.escape(tag))
        while i < len(lines):
            if pat.match(lines[i]):
                buf = lines[i]
                # TLC pretty-prints long values over several lines: accumulate until << >> balance
                while buf.count("<<") > buf.count(">>") and i + 1 < len(lines):
                    i += 1
                    buf += " " + lines[i].strip()
                try:
                    res.append(parse_tla_tuple(buf))
                except Exception:
                    # unparsable pretty-print (exotic characters): keep the leading scalars, give the rest as text
                    m = re.match(r'^<<\s*"%s",\s*(\d+),\s*"([^"]*)",\s*"([^"]*)",\s*(.*)>>\s*$' % re.escape(tag), buf, re.S)
                    if m:
                        res.append([tag, int(m.group(1)), m.group(2), m.group(3), m.group(4)])
                    else:
                        m = re.match(r'^<<\s*"%s",\s*(\d+)' % re.escape(tag), buf)
                        res.append([tag, int(m.group(1)) if m else 0, "?", "?", buf])
            i += 1
        return res

    def json_lines(self, tag):
        """PrintT(<<"TAG", ToJson(x)>>) -> python objects."""
        res = []
        pref = '<<"%s", "' % tag
        for line in self.out.splitlines():
            if line.startswith(pref) and line.endswith('">>'):
                body = line[len(pref):-3]
                body = body.replace('\\"', '"').replace("\\\\", "\\")
                res.append(json.loads(body))
        return res

    def coverage_zero(self):
        """Names of actions that -coverage reports as never taken (0 distinct states)."""
        zero = []
        for m in re.finditer(r"<(\w+) line \d+, col \d+ to line \d+, col \d+ of module (\w+)>: (\d+):(\d+)", self.out):
            if int(m.group(4)) == 0 and int(m.group(3)) == 0:
                zero.append(m.group(1))
        return sorted(set(zero))


def parse_tla_tuple(line):
    """Parse a printed TLA+ tuple of strings/ints/nested tuples (enough for our PrintT lines)."""
    s = line.strip()
    pos = [0]

    def ws():
        while pos[0] < len(s) and s[pos[0]] in " \n\t":
            pos[0] += 1

    def val():
        ws()
        if s.startswith("<<", pos[0]):
            pos[0] += 2
            items = []
            ws()
            if s.startswith(">>", pos[0]):
                pos[0] += 2
                return items
            while True:
                items.append(val())
                ws()
                if s.startswith(",", pos[0]):
                    pos[0] += 1
                    continue
                if s.startswith(">>", pos[0]):
                    pos[0] += 2
                    return items
                raise ValueError("bad tuple: " + s)
        if s[pos[0]] == '"':
            pos[0] += 1
            buf = []
            while s[pos[0]] != '"':
                if s[pos[0]] == "\\":
                    pos[0] += 1
                buf.append(s[pos[0]])
                pos[0] += 1
            pos[0] += 1
            return "".join(buf)
        m = re.match(r"-?\d+", s[pos[0]:])
        if m:
            pos[0] += len(m.group(0))
            return int(m.group(0))
        m = re.match(r"[A-Za-z_]\w*", s[pos[0]:])
        if m:
            pos[0] += len(m.group(0))
            return m.group(0)
        # anything else (sets, records): take until matching delimiter at depth 0
        start = pos[0]
        depth = 0
        while pos[0] < len(s):
            ch = s[pos[0]]
            if ch in "{[(":
                depth += 1
            elif ch in "}])":
                depth -= 1
            elif depth == 0 and (s.startswith(",", pos[0]) or s.startswith(">>", pos[0])):
                break
            pos[0] += 1
        return s[start:pos[0]].strip()

    return val()


_tlc_seq = [0]


def run_tlc(module, cfg, env=None, workers=None, timeout=1800, extra=None, coverage=False,
            dfs=False, heap=None, simulate=None):
    """Run TLC on spec/<module>.tla with spec/<cfg>.cfg. Raises ToolError on timeout/crash."""
    _tlc_seq[0] += 1
    meta = os.path.join(WORK, "tlc", "%d-%d-%s" % (os.getpid(), _tlc_seq[0], cfg))
    os.makedirs(meta, exist_ok=True)
    jto = ["-Xss1g"]
    if dfs:
        jto.append("-Dtlc2.tool.queue.IStateQueue=StateDeque")
    if heap:
        jto.append("-Xmx%s" % heap)
    e = {"JAVA_TOOL_OPTIONS": " ".join(jto)}
    if env:
        e.update(env)
    cmd = ["tlc", "-workers", str(workers or 1), "-metadir", meta, "-cleanup", "-noGenerateSpecTE"]
    if coverage:
        cmd += ["-coverage", "1"]
    if simulate:
        cmd += ["-simulate", simulate]
    if extra:
        cmd += extra
    cmd += ["-config", os.path.join(SPEC, cfg + ".cfg"), os.path.join(SPEC, module + ".tla")]
    t0 = time.time()
    try:
        p = sh(cmd, timeout=timeout, cwd=SPEC, env=e)
    except subprocess.TimeoutExpired:
        shutil.rmtree(meta, ignore_errors=True)
        raise ToolError("TLC timeout after %ds: %s %s" % (timeout, module, cfg))
    shutil.rmtree(meta, ignore_errors=True)
    out = p.stdout.decode("utf8", "replace")
    out = "\n".join(l for l in out.splitlines() if not l.startswith("Picked up JAVA_TOOL_OPTIONS"))
    return TlcResult(out, p.returncode, time.time() - t0)


def validate_trace(module, cfg, trace_path, timeout=1800, dfs=False, heap="6g", extra_env=None):
    """Trace validation: returns (consumed:bool, mismatches:[tuple], TlcResult)."""
    env = {"TRACE": trace_path}
    if extra_env:
        env.update(extra_env)
    r = run_tlc(module, cfg, env=env, workers=1, timeout=timeout, dfs=dfs, heap=heap)
    consumed = bool(r.tuples("TRACE-CONSUMED"))
    mism = r.tuples("MISMATCH")
    if not consumed and not r.tuples("TRACE-STUCK"):
        raise ToolError("trace validation of %s did not complete: %s\n%s" % (trace_path, r.error, r.out[-3000:]))
    return consumed, mism, r


# ----------------------------------------------------------------------------- verdicts

def load_known():
    if not os.path.exists(KNOWN):
        return []
    with open(KNOWN) as f:
        return json.load(f).get("findings", [])


class Verdicts:
    """Collects rejected cases, matches them against known_findings.json, prints the lines."""

    def __init__(self, prop):
        self.prop = prop
        self.known = [k for k in load_known() if k.get("property") == prop and k.get("status") == "open"]
        self.known_hit = {}
        self.violations = []

    def reject(self, key, observed, what, replay_obj):
        """key: canonical minimal failing case; observed: signature of the wrong result."""
        for k in self.known:
            if "key_re" in k:
                hit = re.fullmatch(k["key_re"], key) is not None
            else:
                hit = k["key"] == key
            if hit and "observed_re" in k:
                hit = re.fullmatch(k["observed_re"], str(observed)) is not None
            elif hit and k.get("observed") is not None:
                hit = k["observed"] == observed
            if hit:
                kid = k.get("id") or k.get("key") or k.get("key_re")
                kk, n = self.known_hit.get(kid, (k, 0))
                self.known_hit[kid] = (kk, n + 1)
                return "known"
        self.violations.append((key, observed, what, replay_obj))
        return "violation"

    def finish(self):
        for key, (k, n) in sorted(self.known_hit.items()):
            print("KNOWN-FINDING: property=%s %s [%s; %d rejected case(s) this run]" % (self.prop, k.get("what", ""), key, n))
        if not self.violations:
            if os.environ.get("VERIF_DUMP") and os.path.exists(os.environ["VERIF_DUMP"]):
                os.remove(os.environ["VERIF_DUMP"])
            return 0
        os.makedirs(REPLAYS, exist_ok=True)
        if os.environ.get("VERIF_DUMP"):
            with open(os.environ["VERIF_DUMP"], "w") as f:
                for key, observed, what, obj in self.violations:
                    f.write(json.dumps({"property": self.prop, "key": key, "observed": observed, "what": what}) + "\n")
        seen = set()
        for key, observed, what, obj in self.violations:
            h = hashlib.sha1((self.prop + key + str(observed)).encode()).hexdigest()[:12]
            if h in seen:
                continue
            seen.add(h)
            path = os.path.join(REPLAYS, "%s-%s.json" % (self.prop, h))
            with open(path, "w") as f:
                json.dump({"property": self.prop, "key": key, "observed": observed, "what": what, "case": obj}, f, indent=1)
            print("VIOLATION property=%s replay=%s" % (self.prop, path))
            print("  what: %s" % what)
            print("  key: %s" % key)
            print("  observed: %s" % (observed,))
            if len(seen) >= 25:
                print("  ... %d further violation(s) not listed" % (len(self.violations) - 25))
                break
        return 1


def write_evidence(prop, tier, seed, level, coverage, wall, assumptions=None, violations=0):
    os.makedirs(EVIDENCE, exist_ok=True)
    ev = {
        "property_id": prop,
        "tier": tier,
        "seed": int(seed),
        "level": level,
        "coverage": coverage,
        "assumptions": assumptions or [],
        "wall_s": round(wall, 2),
        "violations": int(violations),
    }
    tmp = os.path.join(EVIDENCE, prop + ".json.tmp")
    with open(tmp, "w") as f:
        json.dump(ev, f, indent=1, sort_keys=True)
    os.replace(tmp, os.path.join(EVIDENCE, prop + ".json"))


def scratch(name):
    d = os.path.join(WORK, "run-%d-%s" % (os.getpid(), name))
    shutil.rmtree(d, ignore_errors=True)
    os.makedirs(d)
    return d


def write_ndjson(path, events):
    with open(path, "w") as f:
        for e in events:
            f.write(json.dumps(e, ensure_ascii=True, separators=(",", ":")))
            f.write("\n")

_SHIM_LOCK = threading.Lock()


def clock_env(epoch):
    """environment under which a child process observes `epoch` (seconds since 1970) as its wall clock at start-up
    (LD_PRELOAD shim lib/clockshim.c, compiled into work/ on first use)"""
    so = os.path.join(WORK, "clockshim.so")
    src = os.path.join(VERIF, "lib", "clockshim.c")
    with _SHIM_LOCK:
        if not os.path.exists(so) or os.path.getmtime(so) < os.path.getmtime(src):
            os.makedirs(WORK, exist_ok=True)
            r = subprocess.run(["cc", "-shared", "-fPIC", "-O1", "-o", so + ".tmp", src, "-ldl"], stdout=subprocess.PIPE, stderr=subprocess.PIPE)
            if r.returncode != 0:
                raise ToolError("cannot build the clock shim: " + r.stderr.decode()[-400:])
            os.replace(so + ".tmp", so)
    return {"LD_PRELOAD": so, "VERIF_EPOCH": str(int(epoch))}
