"""Runs the REAL tauri-typegen CLI binary (built from /repo's working tree) on concrete projects."""
import os
import re
import subprocess

from lib import common as C


class RunResult:
    def __init__(self, rc, out, err):
        self.rc = rc
        self.out = out
        self.err = err
        self.panicked = rc == 101 or "panicked at" in err
        self.signaled = rc < 0
        self.up_to_date = "bindings are up to date" in out
        self.no_commands = "No Tauri commands found" in out

    @property
    def status(self):
        if self.signaled:
            return "killed"
        if self.panicked:
            return "panic"
        if self.rc == 0:
            return "ok"
        return "err"


def cli(args, cwd, timeout=120, env=None):
    e = dict(os.environ)
    e.pop("RUST_BACKTRACE", None)
    if env:
        e.update(env)
    try:
        p = subprocess.run([C.CLI, "tauri-typegen"] + args, cwd=cwd, stdout=subprocess.PIPE, stderr=subprocess.PIPE,
                           timeout=timeout, env=e)
    except subprocess.TimeoutExpired:
        return RunResult(-9, "", "TIMEOUT")
    return RunResult(p.returncode, p.stdout.decode("utf8", "replace"), p.stderr.decode("utf8", "replace"))


def generate(cwd, project="src", out="out", mode=None, config=None, force=False, verbose=False, visualize=False, timeout=120):
    a = ["generate"]
    if project is not None:
        a += ["-p", project]
    if out is not None:
        a += ["-o", out]
    if mode is not None:
        a += ["-v", mode]
    if config is not None:
        a += ["-c", config]
    if force:
        a.append("--force")
    if verbose:
        a.append("--verbose")
    if visualize:
        a.append("--visualize-deps")
    return cli(a, cwd, timeout=timeout)


TS_LINE = re.compile(r"^ \* Generated at: .*$", re.M)


def strip_timestamp(text):
    return TS_LINE.sub(" * Generated at: <ts>", text)


def read_outputs(outdir):
    """-> {filename: text} for regular files directly in outdir."""
    res = {}
    if not os.path.isdir(outdir):
        return res
    for n in sorted(os.listdir(outdir)):
        p = os.path.join(outdir, n)
        if os.path.isfile(p):
            try:
                res[n] = open(p, encoding="utf8").read()
            except UnicodeDecodeError:
                res[n] = open(p, "rb").read().decode("latin1")
    return res
