INIT Init
NEXT Next
CONSTANT Mode = "edges2"
CONSTANT EmitDepth = 2
INVARIANT Emit
CHECK_DEADLOCK FALSE
