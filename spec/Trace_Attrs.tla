----------------------------- MODULE Trace_Attrs -----------------------------
(* Trace validation for C11: the constraint calls observed on a field's Zod schema chain must be
   exactly Attrs!Expected(validators, type class); fields without validators carry none. *)
EXTENDS Attrs, Json, IOUtils

Rec == ndJsonDeserialize(IOEnv.TRACE)
VARIABLE l

Judge(e) == CASE e.event = "Constraint" -> C11_Holds(e.v, e.tc, e.observed)
              [] e.event = "NoValidators" -> Len(e.observed) = 0
              [] OTHER -> FALSE
Why(e) == CASE e.event = "Constraint" -> <<"missing", Expected(e.v, e.tc) \ AsSet(e.observed), "unexpected", AsSet(e.observed) \ Expected(e.v, e.tc),
                                            "calls", Len(e.observed)>>
            [] e.event = "NoValidators" -> <<"unexpected", AsSet(e.observed)>>
            [] OTHER -> <<"unknown event">>

TraceInit == l = 1
TraceNext ==
    /\ l <= Len(Rec)
    /\ IF Judge(Rec[l]) THEN TRUE ELSE PrintT(<<"MISMATCH", l, Rec[l].event, Rec[l].case, Why(Rec[l])>>)
    /\ l' = l + 1
TraceSpec == TraceInit /\ [][TraceNext]_l
TraceAccepted ==
    LET d == TLCGet("stats").diameter IN
    IF d - 1 = Len(Rec) THEN PrintT(<<"TRACE-CONSUMED", Len(Rec)>>)
    ELSE PrintT(<<"TRACE-STUCK", d, Len(Rec)>>) /\ FALSE
=============================================================================
