-------------------------------- MODULE Kahn --------------------------------
(***************************************************************************)
(* As-built layer of DependencyResolver::resolve_build_order: Kahn's       *)
(* algorithm as a step machine.  Contract: DepGraph!KahnContract (C20).    *)
(***************************************************************************)
EXTENDS DepGraph

CONSTANTS Nodes, MaxMult

-----------------------------------------------------------------------------
(* AS-BUILT LAYER 2: Kahn's algorithm as a step machine                     *)
(* `mult' gives the multiplicity of each <<from,to>> pair in the Vec of     *)
(* dependencies (the code pushes duplicates and counts each).               *)

VARIABLES
    knodes,      \* HashSet<DependencyNode>
    mult,        \* [Nodes \X Nodes -> 0..MaxMult], 0 outside knodes
    indeg,       \* in_degree map
    queue,       \* VecDeque
    result,      \* Vec
    kpc          \* "init" | "loop" | "ok" | "circular"

kahnVars == <<knodes, mult, indeg, queue, result, kpc>>

KUses == {p \in knodes \X knodes : mult[p] > 0}

\* all sequences enumerating the finite set S exactly once
RECURSIVE Perms(_)
Perms(S) == IF S = {} THEN {<<>>}
            ELSE UNION {{<<x>> \o p : p \in Perms(S \ {x})} : x \in S}

KahnInit ==
    /\ knodes \in SUBSET Nodes
    /\ mult \in [Nodes \X Nodes -> 0..MaxMult]
    /\ \A p \in Nodes \X Nodes : (p[1] \notin knodes \/ p[2] \notin knodes) => mult[p] = 0
    /\ indeg = [n \in knodes |-> 0]
    /\ queue = <<>> /\ result = <<>>
    /\ kpc = "init"

RECURSIVE SumMult(_, _, _)
SumMult(m, n, S) == IF S = {} THEN 0
                    ELSE LET t == CHOOSE t \in S : TRUE IN m[<<n, t>>] + SumMult(m, n, S \ {t})

\* in-degree of `from' counts every dependency record; queue := zero-degree
\* nodes in HashMap iteration order (any permutation).
KahnFill ==
    /\ kpc = "init"
    /\ LET deg == [n \in knodes |-> SumMult(mult, n, knodes)] IN
       /\ indeg' = deg
       /\ \E q \in Perms({n \in knodes : deg[n] = 0}) : queue' = q
    /\ kpc' = "loop"
    /\ UNCHANGED <<knodes, mult, result>>

\* pop_front; push result; decrement every adjacent (once per dependency record);
\* newly zero nodes are appended in adjacency-Vec order (any order here).
KahnPop ==
    /\ kpc = "loop" /\ queue # <<>>
    /\ LET n == Head(queue)
           nd == [a \in knodes |-> indeg[a] - mult[<<a, n>>]]
           newly == {a \in knodes : indeg[a] > 0 /\ nd[a] = 0}
       IN /\ result' = Append(result, n)
          /\ indeg' = nd
          /\ \E q \in Perms(newly) : queue' = Tail(queue) \o q
    /\ UNCHANGED <<knodes, mult, kpc>>

KahnEnd ==
    /\ kpc = "loop" /\ queue = <<>>
    /\ kpc' = IF Len(result) = Cardinality(knodes) THEN "ok" ELSE "circular"
    /\ UNCHANGED <<knodes, mult, indeg, queue, result>>

KahnNext == KahnFill \/ KahnPop \/ KahnEnd

KahnSpec == KahnInit /\ [][KahnNext]_kahnVars /\ WF_kahnVars(KahnNext)

KahnContractHolds ==
    kpc \in {"ok", "circular"} =>
        KahnContract(knodes, KUses, [ok |-> kpc = "ok", order |-> result])

KahnEventuallyDone == <>(kpc \in {"ok", "circular"})
=============================================================================
