INIT Init
NEXT Next
CONSTANT Mode = "pairroots"
CONSTANT EmitDepth = 2
INVARIANT Emit
CHECK_DEADLOCK FALSE
