------------------------------- MODULE Wrapper -------------------------------
(***************************************************************************)
(* Beyond the listed properties (X03): the control flow of a generated     *)
(* command wrapper (README "With Zod Validation": validation, invoke and   *)
(* the four hooks onValidationError / onInvokeError / onSuccess /          *)
(* onSettled), as a deterministic step machine over an environment.        *)
(*                                                                         *)
(* kind : "plain"      plain mode: `return invoke(name, params)`           *)
(*        "noparams"   Zod mode, command without parameters                *)
(*        "values"     Zod mode, value parameters only                     *)
(*        "channels"   Zod mode, channel parameters only                   *)
(*        "both"       Zod mode, value parameters and channels             *)
(* env  : [val  : "ok" | "fail",         outcome of schema.safeParse       *)
(*         inv  : "resolve" | "reject",  outcome of invoke                 *)
(*         hook : [HookNames -> "absent" | "ok" | "throws"]]               *)
(*                                                                         *)
(* One observable event per step:                                          *)
(*   [what |-> "validate" | "invoke" | <hook name> | "return" | "throw",   *)
(*    arg  |-> what the call received / which value left the function]     *)
(* (silent steps carry the event Ev("tau", "-"))                           *)
(***************************************************************************)
EXTENDS Naturals, Sequences

\* "asbuilt", or one of the mutants used as negative controls of Protocol (MC_Wrapper_neg_*.cfg):
\*   "no_zod_guard"  the catch block reports validation errors to onInvokeError as well
\*   "raw_params"    invoke receives the raw object although a schema validated it
\*   "settled_on_success_only"  onSettled is called after onSuccess instead of in a finally block
\*   "swallow"       the catch block does not rethrow
CONSTANT Variant

HookNames == {"onValidationError", "onInvokeError", "onSuccess", "onSettled"}
Kinds == {"plain", "noparams", "values", "channels", "both"}
Validates(kind) == kind \in {"values", "both"}
HasHooks(kind) == kind # "plain"

Ev(w, a) == [what |-> w, arg |-> a]

\* what invoke receives
InvokeArg(kind) == CASE kind = "plain"    -> "params"
                     [] kind = "noparams" -> "nothing"
                     [] kind = "values"   -> IF Variant = "raw_params" THEN "params" ELSE "validated"
                     [] kind = "channels" -> "params"
                     [] kind = "both"     -> "validated+channels"

\* machine state: pc, pending exception (none / zod / invoke / hook), pending return value
St(pc, err, ret) == [pc |-> pc, err |-> err, ret |-> ret]
InitSt == St("start", "none", "none")

Present(env, h) == env.hook[h] # "absent"
Throws(env, h) == env.hook[h] = "throws"

\* One step: [st |-> successor, ev |-> observable event or "tau"]
Tau(st) == [st |-> st, ev |-> Ev("tau", "-")]
Obs(st, e) == [st |-> st, ev |-> e]

Step(kind, env, st) ==
    CASE st.pc = "start" ->
            IF kind = "plain" THEN Tau(St("invoke", "none", "none"))
            ELSE IF Validates(kind) THEN Tau(St("validate", "none", "none"))
            ELSE Tau(St("invoke", "none", "none"))
      [] st.pc = "validate" ->
            Obs(St(IF env.val = "ok" THEN "invoke" ELSE "val_failed", "none", "none"), Ev("validate", "params"))
      [] st.pc = "val_failed" ->
            IF Present(env, "onValidationError")
            THEN Obs(St("catch", IF Throws(env, "onValidationError") THEN "hook" ELSE "zod", "none"), Ev("onValidationError", "zod"))
            ELSE Tau(St("catch", "zod", "none"))
      [] st.pc = "invoke" ->
            IF env.inv = "resolve"
            THEN Obs(St(IF kind = "plain" THEN "done" ELSE "success", "none", "data"), Ev("invoke", InvokeArg(kind)))
            ELSE Obs(St(IF kind = "plain" THEN "done" ELSE "catch", "invoke", "none"), Ev("invoke", InvokeArg(kind)))
      [] st.pc = "success" ->
            IF Present(env, "onSuccess")
            THEN Obs(IF Throws(env, "onSuccess") THEN St("catch", "hook", "none") ELSE St("finally", "none", "data"), Ev("onSuccess", "data"))
            ELSE Tau(St("finally", "none", "data"))
      [] st.pc = "catch" ->
            \* as built: every exception that is not a ZodError reaches onInvokeError, also one thrown by a hook
            IF (Validates(kind) /\ st.err = "zod" /\ Variant # "no_zod_guard") \/ ~Present(env, "onInvokeError")
            THEN Tau(St("finally", IF Variant = "swallow" THEN "none" ELSE st.err, "none"))
            ELSE Obs(St("finally", IF Throws(env, "onInvokeError") THEN "hook" ELSE IF Variant = "swallow" THEN "none" ELSE st.err, "none"),
                     Ev("onInvokeError", st.err))
      [] st.pc = "finally" ->
            IF Present(env, "onSettled") /\ (Variant # "settled_on_success_only" \/ st.err = "none")
            THEN Obs(IF Throws(env, "onSettled") THEN St("done", "hook", "none") ELSE St("done", st.err, st.ret), Ev("onSettled", "nothing"))
            ELSE Tau(St("done", st.err, st.ret))
      [] st.pc = "done" ->
            Obs(St("end", st.err, st.ret), IF st.err = "none" THEN Ev("return", st.ret) ELSE Ev("throw", st.err))
      [] OTHER -> Tau(st)

\* next observable event (at most four silent steps lie between two observable ones)
RECURSIVE Advance(_, _, _)
Advance(kind, env, st) ==
    LET r == Step(kind, env, st) IN
    IF r.ev.what = "tau" /\ st.pc # "end" THEN Advance(kind, env, r.st) ELSE r

-----------------------------------------------------------------------------
(* Hook protocol, over the log of a finished call                            *)
Count(log, w) == Len(SelectSeq(log, LAMBDA e : e.what = w))
Pos(log, w) == CHOOSE i \in 1..Len(log) : log[i].what = w
NoHookThrows(env) == \A h \in HookNames : env.hook[h] # "throws"

Protocol(kind, env, log) ==
    /\ Count(log, "invoke") <= 1 /\ Count(log, "validate") <= 1
    /\ \A h \in HookNames : Count(log, h) <= 1
    \* invoke is reached iff validation did not fail, and receives the validated data (never the raw object
    \* when there is a schema)
    /\ Count(log, "invoke") = 1 <=> (~Validates(kind) \/ env.val = "ok")
    /\ Validates(kind) => \A i \in 1..Len(log) : log[i].what = "invoke" => log[i].arg \in {"validated", "validated+channels"}
    /\ HasHooks(kind) =>
         \* onSettled last among the hooks, exactly once when present
         /\ Present(env, "onSettled") <=> Count(log, "onSettled") = 1
         /\ \A h \in HookNames \ {"onSettled"} :
                (Count(log, h) = 1 /\ Count(log, "onSettled") = 1) => Pos(log, h) < Pos(log, "onSettled")
         /\ Count(log, "onValidationError") = 1 <=> (Validates(kind) /\ env.val = "fail" /\ Present(env, "onValidationError"))
         /\ Count(log, "onSuccess") = 1 <=> (Count(log, "invoke") = 1 /\ env.inv = "resolve" /\ Present(env, "onSuccess"))
         \* intended reading of onInvokeError - exact when no hook throws
         /\ NoHookThrows(env) =>
                (Count(log, "onInvokeError") = 1 <=> (Count(log, "invoke") = 1 /\ env.inv = "reject" /\ Present(env, "onInvokeError")))
         \* a rejected invoke is always reported when the hook exists
         /\ (Count(log, "invoke") = 1 /\ env.inv = "reject" /\ Present(env, "onInvokeError")) => Count(log, "onInvokeError") = 1
    \* the call ends exactly once, with the data iff everything succeeded
    /\ Len(log) > 0 /\ log[Len(log)].what \in {"return", "throw"}
    /\ Count(log, "return") + Count(log, "throw") = 1
    /\ log[Len(log)] = Ev("return", "data")
         <=> /\ (~Validates(kind) \/ env.val = "ok") /\ env.inv = "resolve"
             /\ (HasHooks(kind) => ~Throws(env, "onSuccess") /\ ~Throws(env, "onSettled"))
    /\ (NoHookThrows(env) /\ Validates(kind) /\ env.val = "fail") => log[Len(log)] = Ev("throw", "zod")
    /\ (NoHookThrows(env) /\ (~Validates(kind) \/ env.val = "ok") /\ env.inv = "reject") => log[Len(log)] = Ev("throw", "invoke")
=============================================================================
