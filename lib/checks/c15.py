"""C15 - no input makes analysis or generation panic; bad files are isolated.

What the specification decides here (DESIGN section 6, C15): a run is a behaviour that must end in RunEnd(ok) or
RunEnd(err) - Trace_Pipeline.tla rejects any other ending (panic, abort, signal) - and a file that does not parse
changes nothing: Trace_Pipeline's Outputs relation `identical` between project P and P + unparsable files.
Inputs: (a) grammar-generated items with exotic syntax (generics, lifetimes, const generics, impl/dyn, fn pointers,
arrays, never type, macros, raw and non-ASCII identifiers in every name position, odd attribute payloads);
(b) attribute payloads fuzzed at the character level (multi-byte characters at every offset, unbalanced quotes and
parentheses) in serde / validate attributes and emit names; (c) a real-world corpus: every .rs file of the repository
and a seeded sample (quick) / all (thorough) of the vendored registry sources, whole, with a command prepended, truncated
at random lines / characters and with single-character mutations, one file per project, both modes, in process with
panic capture (tth corpus).
"""
import json
import os
import random
import shutil
import subprocess
import time
from concurrent.futures import ThreadPoolExecutor

from lib import common as C
from lib import pipeline, runner, rustgen
from lib import pipecheck as P
from lib.checks import c13

PROP = "C15"

EXOTIC_ITEMS = [
    "pub struct Gen<T, const N: usize> where T: Clone { pub items: [T; N], pub r: &'static str }",
    "#[derive(Serialize, Deserialize)]\npub struct Lt<'a> { pub s: &'a str, pub c: std::borrow::Cow<'a, str>, pub b: Box<dyn Fn(i32) -> i32 + Send + 'a> }",
    "#[derive(Serialize, Deserialize)]\npub struct Odd { pub f: fn(u8) -> u8, pub n: !, pub p: *const u8, pub arr: [u8; 4], pub sl: &'static [u8], pub t: (), pub nested: Option<Vec<HashMap<String, (u8, Vec<Option<[i32; 3]>>)>>> }",
    "#[derive(Serialize, Deserialize)]\npub struct Tuple(pub u8, pub String);\n#[derive(Serialize, Deserialize)]\npub struct Unit;",
    "#[derive(Serialize, Deserialize)]\npub enum Mixed { A, B(u8, String), C { x: i32, y: Option<Mixed2> }, D = 7 }\n#[derive(Serialize, Deserialize)]\npub enum Mixed2 {}",
    "#[tauri::command]\npub async fn exotic<'a, T: Clone + 'a, const N: usize>(a: impl Into<String>, b: &'a mut [T; N], c: Box<dyn std::any::Any>, d: fn(), e: (u8,), f: [u8; N], g: &dyn Fn() -> u8, h: *mut u8, mut i: u8, _: u8, (j, k): (u8, u8)) -> impl std::future::Future<Output = ()> { async {} }",
    "#[tauri::command]\npub fn ret_never() -> ! { loop {} }\n#[tauri::command]\npub fn ret_impl() -> impl Iterator<Item = u8> { 0..3 }\n#[tauri::command]\npub fn ret_dyn() -> Box<dyn std::error::Error + Send + Sync> { todo!() }\n#[tauri::command]\npub fn ret_arr() -> [u8; 32] { [0; 32] }\n#[tauri::command]\npub fn ret_qself() -> <Vec<u8> as IntoIterator>::Item { 0 }",
    "macro_rules! mk { ($n:ident) => { #[tauri::command] pub fn $n() {} }; }\nmk!(made_by_macro);\nmk! { another }",
    "#[tauri::command]\npub fn r#fn(r#type: u8, r#match: Option<u8>) -> u8 { r#type }\n#[derive(Serialize, Deserialize)]\npub struct R#struct_ { pub r#type: u8 }".replace("R#struct_", "RawFields"),
    "#[tauri::command]\npub fn ünï_cmd(größe: Größe, é: u8) -> Farbe { todo!() }\n#[derive(Serialize, Deserialize)]\n#[serde(rename_all = \"camelCase\")]\npub struct Größe { pub höhe_wert: u32, pub ünï: String, pub 名前: String }\n#[derive(Serialize, Deserialize)]\n#[serde(rename_all = \"SCREAMING-KEBAB-CASE\")]\npub enum Farbe { Grün, Ärger, 青 }",
    "pub fn emitter(app: tauri::AppHandle, w: tauri::Window) {\n    app.emit(\"événement-€\", \"payload ü\").ok();\n    w.emit_to(\"main\", \"\", ()).ok();\n    app.emit(\"multi\\nline\\t\\\"quoted\\\" \\\\ back\", 1u8).ok();\n    app.emit(r#\"raw \"string\" name\"#, 1).ok();\n    app.emit(b\"bytes\", 1).ok();\n    app.emit(NAME, 1).ok();\n    app.emit().ok();\n    app.emit(\"one-arg\").ok();\n}",
    "#[tauri::command]\npub fn very_long(" + ", ".join("p%d: Option<Vec<HashMap<String, Option<u%d>>>>" % (i, 8 << (i % 4)) for i in range(40)) + ") {}",
    "#[tauri::command]\n#[cfg(feature = \"x\")]\n#[doc(hidden)]\n#[allow(clippy::too_many_arguments)]\n#[tracing::instrument(skip(app), fields(a = %a))]\npub fn attributed(app: tauri::AppHandle, #[allow(unused)] a: u8) {}",
    "#[derive(Serialize, Deserialize)]\n#[serde(tag = \"type\", content = \"data\", rename_all(serialize = \"camelCase\", deserialize = \"snake_case\"), deny_unknown_fields, bound = \"T: Clone\")]\npub struct SerdeHeavy<T> { #[serde(flatten)] pub rest: HashMap<String, T>, #[serde(with = \"my_mod\", rename(serialize = \"a\", deserialize = \"b\"))] pub w: T, #[serde(borrow)] pub s: &'static str, #[serde(default = \"Vec::new\", skip_serializing_if = \"Vec::is_empty\")] pub v: Vec<T>, #[serde(getter = \"x\")] pub g: u8 }",
    "#[derive(Serialize, Deserialize, Validate)]\npub struct Val { #[validate(length(min = 1, max = 10), custom(function = \"check\"), regex(path = *RE, message = \"x\"), contains(pattern = \"a)b\"), must_match(other = \"p2\"), nested, required)] pub a: String, #[validate(range(min = MIN_C, max = 1_000u32, exclusive_min = 0.5))] pub n: u32, #[validate] pub bare: String, #[validate()] pub empty: String, #[validate(length(min = 1, max = ))] pub broken: String }",
    "extern \"C\" { fn ffi(x: i32) -> i32; }\npub union U { a: u8, b: u16 }\npub static mut S: u8 = 0;\npub trait Tr { type A; const C: u8; #[tauri::command] fn in_trait(&self); }\nimpl<T> Tr for T { type A = T; const C: u8 = 0; fn in_trait(&self) {} }\npub type Alias<T> = Result<T, Box<dyn std::error::Error>>;\n#[tauri::command]\npub fn uses_alias() -> Alias<Vec<u8>> { Ok(vec![]) }",
]

FUZZ_POOL = ['"', "'", "\\", "(", ")", ",", "=", "é", "€", "\U0001F600", " ", "a", "#", "<", ">", "{", "}", "\n", "\t", "\u0000"[:0] or "~"]


def broken_nonascii_files():
    """files that do not parse, with multi-byte text before / at / after the error position on the same line and on
    other lines (diagnostics that slice the line by column must not split a character)"""
    texts = ["日本語日本語", "é", "ß€", "\U0001F600\U0001F600", "aé", "ééééééééééééééééééééééééééééééééééééééééé", "x\u0301y"]
    out = {}
    k = 0
    for tx in texts:
        for form in ('const S: &str = "%s" oops;\n', 'pub fn f() { let _x = "%s" "%s"; }\n', '// %s\npub struct S { a: }\n',
                     'pub fn %s( {\n', '/* %s */ #[tauri::command] pub fn g(a: u8, , b: u8) {}\n', 'pub const C: &str = "%s;\n',
                     "pub fn h() { let c = '%s' + ; }\n", 'pub enum E { A = "%s", B( }\n'):
            k += 1
            body = form.replace("%s", tx)
            out["src/broken_na_%d.rs" % k] = "#[tauri::command]\npub fn hidden_%d() {}\n%s" % (k, body)
    return out


def arity_sources():
    """well-known constructor names applied to an unusual NUMBER of generic arguments (legal through local aliases such as
    `type HashMap<V> = std::collections::HashMap<String, V>`), with arguments that themselves contain commas"""
    ctors = ["Option", "Vec", "HashMap", "BTreeMap", "HashSet", "BTreeSet", "Result", "Channel", "Box", "Arc", "Cow", "Mutex"]
    args = ["u8", "(u32, u32)", "Result<u32, String>", "HashMap<String, (u8, u8)>", "()", "&'static str", "[u8; 4]", "Vec<(String, Option<u8>)>"]
    types = []
    for c in ctors:
        types.append(c)                                   # no argument list at all
        for a in args:
            types.append("%s<%s>" % (c, a))               # one argument
        for a, b in (("u8", "(u32, u32)"), ("(u32, u32)", "u8"), ("String", "Result<u32, String>"), ("(u8, u8)", "(u8, u8)")):
            types.append("%s<%s, %s>" % (c, a, b))        # two
        types.append("%s<u8, (u8, u8), String>" % c)      # three
        types.append("%s<'static, u8>" % c)               # a lifetime first
        types.append("std::collections::%s<(u8, u8)>" % c)
    out = []
    for bi in range(0, len(types), 25):
        body = []
        for j, t in enumerate(types[bi:bi + 25]):
            k = bi + j
            body.append("#[derive(Serialize, Deserialize)]\npub struct Ar%d {\n    pub f: %s,\n}\n#[tauri::command]\npub fn ar%d(a: %s, s: Ar%d) -> %s {\n    todo!()\n}\n"
                        "pub fn are%d(app: tauri::AppHandle, p: %s) {\n    app.emit(\"ar-%d\", p).ok();\n}\n" % (k, t, k, t, k, t, k, t, k))
        out.append(("arity%d" % bi, rustgen.PRELUDE + "use tauri::Emitter;\n" + "\n".join(body), "constructor arity family %d.." % bi))
    return out


def nonascii_type_sources():
    """project types with non-ASCII names (1-, 2- and 3-byte characters at different offsets) under every constructor
    and constructor pair, at every site: slicing type strings by character index must not split a character"""
    names = ["É", "Zoë", "Größe", "ユーザー", "aé", "abé", "abcé", "日本"]
    templates = ["{}", "Vec<{}>", "Option<{}>", "HashMap<String, {}>", "({}, u32)", "(u32, {})", "Result<{}, String>", "Result<Vec<{}>, String>",
                 "Result<(u32, {}), String>", "Result<HashMap<String, {}>, String>", "Result<Option<{}>, String>", "Result<u32, Vec<{}>>",
                 "Vec<Result<{}, String>>", "Option<Vec<Option<{}>>>", "HashMap<String, ({}, Option<{}>)>", "Result<{}>", "Result<(u8, {})>",
                 "BTreeMap<u8, Vec<{}>>", "HashSet<Option<{}>>", "&'static {}",
                 # the name itself generic, and behind a path whose segments are not ASCII either: the head of a type
                 # string ("before the first <, ( or [", "after the last ::") is found by offsets into such names
                 "{}G<u32>", "{}G<{}>", "Vec<{}G<String>>", "Option<{}G<Vec<{}>>>", "{}G<(u8, {})>", "({}G<u8>, {})", "HashMap<String, {}G<bool>>",
                 "mod\u00e9::{}", "crate::mod\u00e9::{}", "crate::mod\u00e9::{}G<u8>", "Option<mod\u00e9::{}>", "(mod\u00e9::{}, u8)", "Vec<\u65e5::{}G<\u65e5::{}>>",
                 "Result<mod\u00e9::{}G<u8>, String>", "[{}; 3]", "[{}G<u8>; 2]", "Vec<[mod\u00e9::{}; 2]>"]
    out = []
    for ni, nm in enumerate(names):
        body = ["#[derive(Serialize, Deserialize)]\npub struct %s {\n    pub wert: u8,\n}\n#[derive(Serialize, Deserialize)]\npub struct %sG<T> {\n    pub inner: T,\n}\n" % (nm, nm)]
        for ti, t in enumerate(templates):
            ty = t.replace("{}", nm)
            k = ni * 100 + ti
            body.append("#[derive(Serialize, Deserialize)]\npub struct Na%d {\n    pub f: %s,\n}\n#[tauri::command]\npub fn na%d(a: %s, s: Na%d, ch: Channel<%s>) -> %s {\n    todo!()\n}\n"
                        "pub fn nae%d(app: tauri::AppHandle, p: %s) {\n    app.emit(\"na-%d\", p).ok();\n}\n" % (k, ty, k, ty, k, ty, ty, k, ty, k))
        out.append(("nonascii-types%d" % ni, rustgen.PRELUDE + "use tauri::Emitter;\n" + "\n".join(body), "types named %s under constructors" % nm))
    return out


def rust_lit(s):
    return '"' + s.replace("\\", "\\\\").replace('"', '\\"').replace("\n", "\\n").replace("\t", "\\t") + '"'


def fuzz_sources(rnd, n):
    """attribute payloads / event names fuzzed at the character level (always valid Rust string literals)"""
    out = []
    for i in range(n):
        k = rnd.randint(0, 6)
        s = "".join(rnd.choice(FUZZ_POOL) for _ in range(k))
        which = i % 9
        lit = rust_lit(s)
        if which == 6:
            # validator attribute lists that are valid token trees but not validator syntax (structural parsing
            # fails and any text fallback runs): foreign literals, missing commas, wrong delimiters, stray values
            pool = ["length(min = 1, max = 20, message = %s)" % lit, "range(min = 1, message = %s)" % lit, "email(message = %s)" % lit,
                    "url", '"legacy"', lit, "custom(function = \"f\", message = %s)" % lit, "length(min = 1, message = %s, %s)" % (lit, lit),
                    "length(message = %s min = 1)" % lit, "message = %s" % lit, "length(min = 1)(x)", "regex(path = *RE, message = %s)" % lit,
                    "length[min = 1, message = %s]" % lit, "42", "nested::path(message = %s)" % lit, "range(min = , max = 3, message = %s)" % lit,
                    "length(min = 1, message = %s) = 3" % lit, "email = %s" % lit]
            items = [rnd.choice(pool) for _ in range(rnd.randint(1, 3))]
            body = "#[derive(Serialize, Deserialize)]\npub struct Fz%d { #[validate(%s)] pub f: String }\n#[tauri::command]\npub fn fz%d(a: Fz%d) {}" % (i, ", ".join(items), i, i)
        elif which == 7:
            pool = ["rename = %s" % lit, "rename(serialize = %s, deserialize = %s)" % (lit, lit), "rename_all = %s" % lit, '"x"', lit, "7",
                    "rename = %s = 1" % lit, "rename[%s]" % lit, "alias = %s" % lit, "skip", "default = %s" % lit, "rename_all(serialize = %s)" % lit,
                    "rename %s" % lit, "tag = %s" % lit, "other::path(%s)" % lit]
            cont = [rnd.choice(pool) for _ in range(rnd.randint(1, 3))]
            fld = [rnd.choice(pool) for _ in range(rnd.randint(1, 3))]
            body = "#[derive(Serialize, Deserialize)]\n#[serde(%s)]\npub struct Fz%d { #[serde(%s)] pub some_field: String }\n#[derive(Serialize, Deserialize)]\n#[serde(%s)]\npub enum Ez%d { #[serde(%s)] FirstOne, B }\n#[tauri::command]\npub fn fz%d(a: Fz%d, b: Ez%d) {}" % (
                ", ".join(cont), i, ", ".join(fld), ", ".join(cont), i, ", ".join(fld), i, i, i)
        elif which == 8:
            pool = ["rename_all = %s" % lit, "async", '"x"', lit, "rename_all = \"snake_case\"", "root = %s" % lit, "rename_all(%s)" % lit, "rename_all = %s = 2" % lit]
            args = [rnd.choice(pool) for _ in range(rnd.randint(1, 3))]
            body = "#[tauri::command(%s)]\npub fn fz%d(some_arg: u8) {}\n#[command(%s)]\npub fn fy%d(other_arg: u8) {}\n#[tauri::command]\npub fn fzc%d() {}" % (", ".join(args), i, ", ".join(args), i, i)
        elif which == 0:
            body = "#[derive(Serialize, Deserialize)]\npub struct Fz%d { #[validate(length(min = 1, message = %s))] pub f: String }\n#[tauri::command]\npub fn fz%d(a: Fz%d) {}" % (i, rust_lit(s), i, i)
        elif which == 1:
            body = "#[derive(Serialize, Deserialize)]\npub struct Fz%d { #[serde(rename = %s)] pub f: String, #[serde(alias = %s)] pub g: u8 }\n#[tauri::command]\npub fn fz%d(a: Fz%d) {}" % (i, rust_lit(s), rust_lit(s), i, i)
        elif which == 2:
            body = "#[derive(Serialize, Deserialize)]\n#[serde(rename_all = %s)]\npub struct Fz%d { pub some_field: String }\n#[tauri::command]\npub fn fz%d(a: Fz%d) {}" % (rust_lit(s), i, i, i)
        elif which == 3:
            body = "pub fn fz%d(app: tauri::AppHandle) { app.emit(%s, 1).ok(); }\n#[tauri::command]\npub fn fzc%d() {}" % (i, rust_lit(s), i)
        elif which == 4:
            body = "#[derive(Serialize, Deserialize)]\npub struct Fz%d { #[validate(range(min = 1, max = 2, message = %s), email(message = %s))] pub f: String }\n#[tauri::command]\npub fn fz%d(a: Fz%d) {}" % (i, rust_lit(s), rust_lit(s), i, i)
        else:
            body = "#[derive(Serialize, Deserialize)]\npub enum Fz%d { #[serde(rename = %s)] A, B }\n#[tauri::command]\npub fn fz%d(a: Fz%d) {}" % (i, rust_lit(s), i, i)
        out.append(("fuzz%d" % i, rustgen.PRELUDE + "use validator::Validate;\n" + body + "\n", s))
    return out


def emit_arity_sources():
    """every emitter method with every argument count (0..4) on every kind of receiver, in top-level functions and in
    methods: a call that is not a well-formed emit is at most not an event - indexing its arguments must not panic"""
    out = []
    receivers = ["app", "window", "webview", "self.app", "ctx.window", "state.bus()", "app.clone()", "tauri::AppHandle::clone(&app)", "handle"]
    argpool = ['"first"', '"second-name"', "payload", "42", "&extra"]
    for mi, method in enumerate(("emit", "emit_to", "emit_filter", "emit_str", "emit_all")):
        body = ["pub struct Ctx { pub app: tauri::AppHandle, pub window: tauri::Window }\n"]
        k = 0
        for ri, recv in enumerate(receivers):
            for n in range(5):
                call = "%s.%s(%s)" % (recv, method, ", ".join(argpool[:n]))
                k += 1
                if recv.startswith("self."):
                    body.append("impl Ctx {\n    pub fn m%d_%d(&self, payload: u8, extra: u8) {\n        %s.ok();\n    }\n}\n" % (mi, k, call))
                else:
                    body.append("pub fn f%d_%d(app: tauri::AppHandle, window: tauri::Window, webview: tauri::Webview, ctx: &Ctx, state: &S, handle: H, payload: u8, extra: u8) {\n    %s.ok();\n    let _ = %s;\n}\n" % (mi, k, call, call))
        body.append("#[tauri::command]\npub fn anchor_%d() {}\n" % mi)
        out.append(("emit-arity-%s" % method, rustgen.PRELUDE + "use tauri::Emitter;\n" + "\n".join(body), "calls of `%s` with 0..4 arguments on 9 receivers" % method))
    return out


def keyword_adjacent_sources():
    """token-balanced but malformed attribute lists (the structural parser gives up and any text fallback runs) in
    which a word the fallbacks search for stands directly after / before a 2-, 3- or 4-byte character - inside a
    literal and as a key: offsets computed around the match are byte offsets, the neighbours are not bytes"""
    out = []
    chars = ["\u00e9", "\u20ac", "\U0001d54f"]
    serde_kw = ["rename", "rename_all", "alias", "skip", "default", "serialize", "deserialize"]
    valid_kw = ["message", "min", "max", "length", "range", "email", "url", "custom", "regex"]
    n = 0
    for kw in serde_kw:
        body = []
        for ci, ch in enumerate(chars):
            for pi, lit in enumerate((ch + kw, kw + ch, ch + kw + ch, ch + kw + " = " + ch)):
                forms = ['alias = "%s" %s = "given"' % (lit, kw), '%s "%s"' % (kw, lit), '"%s" %s = "x"' % (lit, kw), '%s = "%s" = 1' % (kw, lit),
                         'other("%s") %s("%s")' % (lit, kw, lit), '"%s"' % lit]
                for fi, f in enumerate(forms):
                    t = "K%d_%d_%d_%d" % (n, ci, pi, fi)
                    body.append("#[derive(Serialize, Deserialize)]\n#[serde(%s)]\npub struct S%s { #[serde(%s)] pub some_field: String, pub age: u8 }\n"
                                "#[derive(Serialize, Deserialize)]\npub enum E%s { #[serde(%s)] FirstOne, B }\n"
                                "#[tauri::command]\npub fn c%s(#[serde(%s)] first_arg: S%s, b: E%s) {}\n" % (f, t, f, t, f, t.lower(), f, t, t))
        out.append(("kwadj-serde-%s" % kw, rustgen.PRELUDE + "\n".join(body), "malformed serde lists with `%s` beside multi-byte characters" % kw))
        n += 1
    for kw in valid_kw:
        body = []
        for ci, ch in enumerate(chars):
            for pi, lit in enumerate((ch + kw, kw + ch, ch + kw + ch, ch + kw + " = " + ch)):
                forms = ['length(message = "%s" %s = 1)' % (lit, kw), '%s "%s"' % (kw, lit), '"%s" %s(min = 1)' % (lit, kw), 'length(min = 1, message = "%s") = 3' % lit,
                         'range(%s = , message = "%s")' % (kw, lit), '"%s"' % lit, 'email(message = "%s" message = "%s")' % (lit, lit)]
                for fi, f in enumerate(forms):
                    t = "V%d_%d_%d_%d" % (n, ci, pi, fi)
                    body.append("#[derive(Serialize, Deserialize)]\npub struct S%s { #[validate(%s)] pub f: String, #[validate(%s)] pub g: f64 }\n"
                                "#[tauri::command]\npub fn c%s(a: S%s) {}\n" % (t, f, f, t.lower(), t))
        out.append(("kwadj-validate-%s" % kw, rustgen.PRELUDE + "use validator::Validate;\n" + "\n".join(body), "malformed validate lists with `%s` beside multi-byte characters" % kw))
        n += 1
    return out


def run(tier, seed):
    t0 = time.time()
    d = C.scratch("c15")
    verdicts = C.Verdicts(PROP)
    rnd = random.Random(seed)
    events = [{"event": "Reset", "case": "c15"}]
    info = []
    # ---- (a) + (b): grammar-generated and fuzzed sources through the real CLI, both modes
    sources = [("exotic%d" % i, rustgen.PRELUDE + "use validator::Validate;\n" + t + "\n#[tauri::command]\npub fn anchor_%d() {}\n" % i, t[:60]) for i, t in enumerate(EXOTIC_ITEMS)]
    sources.append(("exotic-all", rustgen.PRELUDE + "use validator::Validate;\n" + "\n".join(EXOTIC_ITEMS) + "\n#[tauri::command]\npub fn anchor_all() {}\n", "all exotic items together"))
    sources += arity_sources()
    sources += nonascii_type_sources()
    sources += keyword_adjacent_sources()
    sources += emit_arity_sources()
    sources += fuzz_sources(rnd, 360 if tier == "quick" else 4500)

    def work(src):
        name, text, what = src
        res = []
        for mode in ("none", "zod"):
            root = os.path.join(d, "%s-%s" % (name, mode))
            rustgen.write_project(root, {"src/lib.rs": text})
            r = runner.generate(root, mode=mode)
            if name.startswith(("kwadj-", "emit-arity-")) and "Failed to parse" in r.err:
                raise C.ToolError("source %s is meant to be parsable Rust but the analyser skipped it: %s" % (name, r.err[-300:]))
            res.append((name, mode, r.status, r.err[-300:], what))
            shutil.rmtree(root, ignore_errors=True)
        return res
    with ThreadPoolExecutor(max_workers=12) as ex:
        for res in ex.map(work, sources):
            for name, mode, status, err, what in res:
                events.append({"event": "RunStart", "driver": "cli", "forced": False})
                events.append({"event": "RunEnd", "status": status, "upToDate": False, "exit": 0, "injectedKill": False, "wroteNothing": False})
                info.append((len(events), name, mode, status, err, what))
    # ---- isolation: P + unparsable files == P
    iso = 0
    for vi, attrs in enumerate([(), ("field_rename",), ("mode",)]):
        st = pipeline.State(True, False)
        for a in attrs:
            st.attrs[a] = 1
        rc0, base = c13.generate(d, "iso%d-base" % vi, st)
        files = pipeline.render(st)
        bad = {
            st.proj_rel + "/src/broken_one.rs": "#[tauri::command]\npub fn hidden_one( {\n",
            st.proj_rel + "/src/cmds/broken_two.rs": "this is not rust at all <<<>>> \"unterminated\n#[tauri::command]\nfn x() {}\n",
            st.proj_rel + "/src/cmds/deep/broken_three.rs": "pub struct S { a: }\n#[derive(Serialize, Deserialize)]\npub struct User { pub other: u8 }\n",
            st.proj_rel + "/src/empty.rs": "",
            st.proj_rel + "/src/only_comment.rs": "// nothing here\n/* block */\n",
        }
        if vi == 0:
            for rel, text in broken_nonascii_files().items():
                bad[st.proj_rel + "/" + rel] = text
        root = os.path.join(d, "iso%d-bad" % vi)
        rustgen.write_project(root, dict(files, **bad))
        r = runner.cli(["generate", "-c", "typegen.json"], root)
        texts = runner.read_outputs(os.path.join(root, st.out_rel))
        events.append({"event": "RunStart", "driver": "cli", "forced": False})
        events.append({"event": "RunEnd", "status": r.status, "upToDate": False, "exit": r.rc, "injectedKill": False, "wroteNothing": False})
        info.append((len(events), "isolation%d" % vi, "cfg", r.status, r.err[-300:], "project + unparsable (ASCII and non-ASCII) and empty files"))
        events.append({"event": "Outputs", "case": "isolation%d" % vi, "relation": "identical", "what": "unparsable files added",
                       "a": base or {"_none": ["-"]}, "b": c13.digests(texts) or {"_none": ["-"]}})
        iso += 1
        shutil.rmtree(root, ignore_errors=True)
    # ---- (c) corpus, in process
    reg = [p for p in sorted(os.listdir(os.path.expanduser("~/.cargo/registry/src"))) if os.path.isdir(os.path.join(os.path.expanduser("~/.cargo/registry/src"), p))]
    roots = [os.path.join(C.REPO, "src"), os.path.join(C.REPO, "tests")]
    if reg:
        roots.append(os.path.join(os.path.expanduser("~/.cargo/registry/src"), reg[0]))
    cw = os.path.join(d, "corpus")
    os.makedirs(cw)
    args = [C.TTH, "corpus", "--roots", ",".join(roots), "--work", cw, "--out", os.path.join(cw, "bad.ndjson"), "--seed", str(seed), "--threads", "14"]
    if tier == "quick":
        args += ["--max-files", "2500", "--truncate", "1", "--mutate", "1"]
    else:
        args += ["--truncate", "3", "--mutate", "3"]
    p = C.sh(args, timeout=7200)
    corpus = {"files": 0, "runs": 0, "abnormal": 0}
    if p.returncode != 0:
        # the driver itself died (abort / stack overflow in the code under test is not catchable): that is a violation
        verdicts.reject("corpus driver died rc=%d" % p.returncode, "abort", "the in-process corpus driver was killed (rc %d): an abort or stack overflow in analysis/generation; stderr: %s" % (p.returncode, p.stderr.decode("utf8", "replace")[-300:]), {})
    else:
        corpus = json.loads(p.stdout.decode().strip().splitlines()[-1])
        for line in open(os.path.join(cw, "bad.ndjson")):
            b = json.loads(line)
            events.append({"event": "RunStart", "driver": "lib", "forced": False})
            events.append({"event": "RunEnd", "status": "panic", "upToDate": False, "exit": 101, "injectedKill": False, "wroteNothing": False})
            info.append((len(events), os.path.relpath(b["file"], os.path.expanduser("~")), b["mode"], "panic", b["status"], b["variant"]))
    mism = P.validate(d, events, name="c15")
    by_line = {i[0]: i for i in info}
    for line, prop, case, what in mism:
        if prop == "C15":
            i = by_line.get(line)
            if not i:
                continue
            _, name, mode, status, err, wh = i
            import re
            sig = re.sub(r"\d+", "#", (re.findall(r"panicked at ([^\n]*)", err) or [err.split("\n")[-1]])[0])[:120]
            verdicts.reject("input=%s status=%s" % (re.sub(r"\d+", "#", name), status), sig,
                            "run on %s (%s, mode %s) ended with %s: %s" % (name, wh, mode, status, err[-200:]), {"name": name, "mode": mode})
        elif prop == "C13":
            verdicts.reject("isolation " + str(what)[:100], "output differs", "adding unparsable files changed the output of the other files: %s" % str(what)[:300], {})
    rc = verdicts.finish()
    nsrc = len(sources) * 2
    C.write_evidence(PROP, tier, seed, "exploration", {
        "evaluations": nsrc + iso + corpus.get("runs", 0),
        "distinct_nontrivial": len(sources) + corpus.get("files", 0),
        "rule": "one evaluation = one run of analysis+generation on one input in one mode: %d exotic-syntax sources, %d character-level fuzzed "
                "attribute payloads (CLI, both modes), %d isolation projects, corpus of %d real .rs files (whole / with a command / truncated / "
                "mutated, in process with panic capture); distinct = distinct inputs" % (len(EXOTIC_ITEMS) + 1, len(sources) - len(EXOTIC_ITEMS) - 1, iso, corpus.get("files", 0)),
        "samples": [s[2] for s in sources[:3]] + [s[1][-120:] for s in sources[-2:]],
        "corpus": corpus, "traces_validated_against_impl": (len(events) - 1) // 2,
        "known_findings_matched": len(verdicts.known_hit),
        "exhaustive": False,
    }, time.time() - t0, assumptions=["totality over all Rust sources is a fuzzing question; the specification contributes the termination (RunEnd in {ok, err}) and isolation contracts",
                                      "non-UTF-8 files are outside the property's quantifier and skipped"],
        violations=len(verdicts.violations))
    shutil.rmtree(d, ignore_errors=True)
    return rc


def replay(path, seed):
    return run("quick", seed)
