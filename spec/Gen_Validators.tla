--------------------------- MODULE Gen_Validators ---------------------------
(* Case generator for C11: validator attribute contents x field type classes.  Numeric literals and
   message characters are class tokens owned by the harness (TLC integers are 32-bit, its JSON ASCII). *)
EXTENDS Attrs, Json

CONSTANT Mode    \* "shapes" | "numbers" | "messages" | "companions" | "msgsites"
VARIABLE c

None == [p |-> FALSE, min |-> "none", max |-> "none", hasMsg |-> FALSE, msg |-> <<>>]
NoFlag == [p |-> FALSE, hasMsg |-> FALSE, msg |-> <<>>]
B(min, max, hm) == [p |-> TRUE, min |-> min, max |-> max, hasMsg |-> hm, msg |-> IF hm THEN <<"a", "sp", "b">> ELSE <<>>]
F(hm) == [p |-> TRUE, hasMsg |-> hm, msg |-> IF hm THEN <<"a", "sp", "b">> ELSE <<>>]

Lits == {"n5", "n0", "nneg5", "nhalf", "n1e3", "nbig", "n10_5", "nhuge", "nneghuge", "n1e20int"}
Opt(S) == S \cup {"none"}
TypeClasses == {"string", "number", "vec", "optstring", "optnumber"}

\* which validators, with which bounds present, with/without message, on which type class
Shapes ==
    { [kind |-> "v", tc |-> tc,
       v |-> [length |-> l, range |-> r, email |-> e, url |-> u],
       split |-> sp]
      : tc \in TypeClasses,
        l \in {None} \cup {B(mn, mx, hm) : mn \in {"none", "n0", "n5"}, mx \in {"none", "n5", "nbig"}, hm \in BOOLEAN},
        r \in {None} \cup {B(mn, mx, hm) : mn \in {"none", "nneg5", "nhalf"}, mx \in {"none", "n1e3"}, hm \in BOOLEAN},
        e \in {NoFlag, F(FALSE), F(TRUE)}, u \in {NoFlag, F(FALSE)},
        sp \in {"one_attr", "separate_attrs"} }
ShapeOk(s) ==
    /\ (s.v.length.p => (s.v.length.min # "none" \/ s.v.length.max # "none"))
    /\ (s.v.range.p => (s.v.range.min # "none" \/ s.v.range.max # "none"))
    /\ (s.v.length.p => Sized(s.tc)) /\ (s.v.range.p => Numeric(s.tc))
    /\ ((s.v.email.p \/ s.v.url.p) => Textual(s.tc))
    /\ (s.v.length.p \/ s.v.range.p \/ s.v.email.p \/ s.v.url.p)

\* every numeric literal class as min and as max of range and (non-negative integers) of length
Numbers ==
    { [kind |-> "v", tc |-> "number", split |-> "one_attr",
       v |-> [length |-> None, range |-> B(mn, mx, FALSE), email |-> NoFlag, url |-> NoFlag]]
      : mn \in Opt(Lits), mx \in Opt(Lits) } \ { [kind |-> "v", tc |-> "number", split |-> "one_attr",
       v |-> [length |-> None, range |-> B("none", "none", FALSE), email |-> NoFlag, url |-> NoFlag]] }

\* messages over character classes, at every offset, on a length validator of a String field
MsgAlpha == {"a", "sp", "q", "ap", "bs", "lp", "rp", "cm", "dot", "u2", "u3", "u4", "w_email", "w_url", "w_min", "w_max", "w_message", "eq"}
RECURSIVE Msgs(_)
Msgs(n) == IF n = 0 THEN {<<>>} ELSE LET sh == Msgs(n - 1) IN sh \cup {Append(m, x) : m \in {t \in sh : Len(t) = n - 1}, x \in MsgAlpha}
Messages ==
    { [kind |-> "v", tc |-> "string", split |-> "one_attr",
       v |-> [length |-> [p |-> TRUE, min |-> "n5", max |-> "none", hasMsg |-> TRUE, msg |-> m],
              range |-> None, email |-> NoFlag, url |-> NoFlag]]
      : m \in Msgs(3) \ {<<>>} }

\* validators without a Zod counterpart in the SAME attribute list (name-value and parenthesised spellings, names and
\* values that contain the words email / url / min / max): they add nothing and must not disturb the others -
\* also when they are the only content ("email/url iff declared")
Companions == {"custom_nv_email", "custom_paren_url", "must_match_nv_url", "regex_nv_minmax", "nested", "required", "contains_nv_email"}
MsgP == <<"lp", "a", "rp", "sp", "w_url">>
CompBases ==
    { [length |-> None, range |-> None, email |-> NoFlag, url |-> NoFlag],
      [length |-> B("n5", "nbig", FALSE), range |-> None, email |-> NoFlag, url |-> NoFlag],
      [length |-> [p |-> TRUE, min |-> "n5", max |-> "none", hasMsg |-> TRUE, msg |-> MsgP], range |-> None, email |-> NoFlag, url |-> NoFlag],
      [length |-> None, range |-> None, email |-> F(TRUE), url |-> NoFlag],
      [length |-> None, range |-> None, email |-> NoFlag, url |-> F(FALSE)] }
CompNumBases ==
    { [length |-> None, range |-> None, email |-> NoFlag, url |-> NoFlag],
      [length |-> None, range |-> B("nneg5", "n1e3", FALSE), email |-> NoFlag, url |-> NoFlag],
      [length |-> None, range |-> [p |-> TRUE, min |-> "nhalf", max |-> "none", hasMsg |-> TRUE, msg |-> MsgP], email |-> NoFlag, url |-> NoFlag] }
CompanionCases ==
    { [kind |-> "v", tc |-> "string", split |-> "one_attr", v |-> b, comp |-> cp, compFirst |-> cf]
        : b \in CompBases, cp \in Companions, cf \in BOOLEAN }
    \cup { [kind |-> "v", tc |-> "number", split |-> "one_attr", v |-> b, comp |-> cp, compFirst |-> cf]
        : b \in CompNumBases, cp \in Companions, cf \in BOOLEAN }

\* messages with characters that need escaping, on EVERY validator and bound configuration (a message is rendered once
\* per emitted constraint call: .min and .max of one validator carry the same text)
EscMsgs == { <<x>> : x \in {"q", "bs", "ap", "u2"} } \cup { <<x, y>> : x \in {"q", "bs", "a"}, y \in {"q", "bs", "u3"} }
           \cup { <<"lp", "a", "rp", "dot">>, <<"a", "rp", "dot", "w_min", "lp", "n1", "rp", "cm", "sp", "dot", "w_max", "lp">> }
           \cup { <<"a", "q", "sp", "bs", "bs", "sp", "ap", "u4">> }
MsgSites ==
    { [kind |-> "v", tc |-> "string", split |-> "one_attr",
       v |-> [length |-> [p |-> TRUE, min |-> mn, max |-> mx, hasMsg |-> TRUE, msg |-> m], range |-> None, email |-> NoFlag, url |-> NoFlag]]
      : m \in EscMsgs, <<mn, mx>> \in {<<"n5", "none">>, <<"none", "nbig">>, <<"n0", "n5">>} }
    \cup
    { [kind |-> "v", tc |-> "number", split |-> "one_attr",
       v |-> [length |-> None, range |-> [p |-> TRUE, min |-> mn, max |-> mx, hasMsg |-> TRUE, msg |-> m], email |-> NoFlag, url |-> NoFlag]]
      : m \in EscMsgs, <<mn, mx>> \in {<<"nneg5", "none">>, <<"none", "n1e3">>, <<"nhalf", "n1e3">>} }
    \cup
    { [kind |-> "v", tc |-> "string", split |-> "one_attr",
       v |-> [length |-> None, range |-> None, email |-> [p |-> TRUE, hasMsg |-> TRUE, msg |-> m], url |-> NoFlag]]
      : m \in EscMsgs }

Space == CASE Mode = "shapes" -> {s \in Shapes : ShapeOk(s)}
           [] Mode = "msgsites" -> MsgSites
           [] Mode = "companions" -> CompanionCases
           [] Mode = "numbers" -> Numbers
           [] Mode = "messages" -> Messages
Init == c \in Space
Next == UNCHANGED c
Emit == PrintT(<<"REPLAY", ToJson(c)>>)
=============================================================================
