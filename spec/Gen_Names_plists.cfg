INIT Init
NEXT Next
CONSTANTS Mode = "plists"
 MaxLen = 1
INVARIANT Emit
CHECK_DEADLOCK FALSE
