---------------------------- MODULE Trace_Config ----------------------------
(***************************************************************************)
(* Trace validation for C19: observations of the real configuration code   *)
(* (save_to_tauri_config / from_tauri_config through the harness, and the  *)
(* CLI's flag handling) judged with the ConfigDoc operators.               *)
(***************************************************************************)
EXTENDS ConfigDoc, Json, IOUtils

Rec == ndJsonDeserialize(IOEnv.TRACE)
VARIABLE l

SavedOk(e) ==
    /\ e.save = "ok"
    /\ NoDupKeys(e.before) => Preserved(e.before, e.after)
    /\ HasTypegen(Norm(e.after))
    /\ e.load = "some"
    /\ RoundTrips(e.written, e.loaded)

SavedWhy(e) ==
    IF e.save # "ok" THEN <<"save failed", e.save>>
    ELSE IF ~Preserved(e.before, e.after) THEN <<"foreign part of the document changed">>
    ELSE IF ~HasTypegen(Norm(e.after)) THEN <<"plugins.typegen missing after save">>
    ELSE IF e.load # "some" THEN <<"settings cannot be read back", e.load>>
    ELSE <<"settings read back differ", {s \in DOMAIN e.written : s \notin DOMAIN e.loaded \/ e.loaded[s] # e.written[s]}>>

\* The file itself names an unsupported library / a missing project path, but a flag overrides that
\* very setting: the property's two sentences pull in different directions (an invalid setting "is
\* rejected" vs. "flag over file"), so both outcomes are accepted.
InvalidInFile(e) == e.file.library \notin (Supported \cup {"absent"}) \/ e.file.project = "missing"
PrecOk(e) ==
    IF MustReject(e.flags, e.file)
    THEN e.rejected /\ ~e.mutated
    ELSE IF InvalidInFile(e)
    THEN (e.rejected /\ ~e.mutated) \/ (~e.rejected /\ e.observed = Effective(e.flags, e.file))
    ELSE ~e.rejected /\ e.observed = Effective(e.flags, e.file)

PrecWhy(e) ==
    IF MustReject(e.flags, e.file)
    THEN <<"must be rejected before anything is written", "rejected", e.rejected, "mutated", e.mutated>>
    ELSE IF e.rejected THEN <<"valid settings rejected">>
    ELSE <<"effective settings differ", {s \in Settings : e.observed[s] # Effective(e.flags, e.file)[s]}>>

\* `init` writes the settings into a configuration document: unsupported library / missing project path must be
\* rejected before anything is written (document, custom file, bindings); valid settings must be accepted
InitOk(e) ==
    IF e.library \notin Supported \/ e.project = "missing"
    THEN e.rejected /\ ~e.mutated
    ELSE ~e.rejected /\ e.mutated
InitWhy(e) ==
    IF e.library \notin Supported \/ e.project = "missing"
    THEN <<"init must reject before anything is written", "rejected", e.rejected, "mutated", e.mutated>>
    ELSE <<"valid init rejected or without effect", "rejected", e.rejected, "mutated", e.mutated>>

\* a SEQUENCE of `init` runs over one document: after every run the typegen entry read back holds the settings of THAT
\* run (written / loaded : records over the same keys, booleans canonical), and the rest of the document is untouched
InitSeqOk(e) == ~e.rejected /\ e.loaded = e.written /\ e.restPreserved
InitSeqWhy(e) == <<"after init the document does not hold the settings of this run", "rejected", e.rejected,
                   "differing", {k \in DOMAIN e.written : k \notin DOMAIN e.loaded \/ e.loaded[k] # e.written[k]}, "rest preserved", e.restPreserved>>

Judge(e) == CASE e.event = "ConfigSaved" -> SavedOk(e)
              [] e.event = "InitSeq"     -> InitSeqOk(e)
              [] e.event = "InitRun"     -> InitOk(e)
              [] e.event = "Precedence"  -> PrecOk(e)
              [] OTHER -> FALSE
Why(e) == CASE e.event = "ConfigSaved" -> SavedWhy(e)
            [] e.event = "Precedence"  -> PrecWhy(e)
            [] e.event = "InitRun"     -> InitWhy(e)
            [] e.event = "InitSeq"     -> InitSeqWhy(e)
            [] OTHER -> <<"unknown event">>

TraceInit == l = 1
TraceNext ==
    /\ l <= Len(Rec)
    /\ IF Judge(Rec[l]) THEN TRUE ELSE PrintT(<<"MISMATCH", l, Rec[l].event, Rec[l].case, Why(Rec[l])>>)
    /\ l' = l + 1
TraceSpec == TraceInit /\ [][TraceNext]_l
TraceAccepted ==
    LET d == TLCGet("stats").diameter IN
    IF d - 1 = Len(Rec) THEN PrintT(<<"TRACE-CONSUMED", Len(Rec)>>)
    ELSE PrintT(<<"TRACE-STUCK", d, Len(Rec)>>) /\ FALSE
=============================================================================
