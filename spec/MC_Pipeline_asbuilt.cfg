SPECIFICATION Spec
CONSTANTS
 Classes <- SmallClasses
 HashedClasses <- SmallClasses
 VizHashed = TRUE
 FlagOverwritesConfig = FALSE
 EventsHashed = TRUE
 NOrders = 2
 KeyDependsOnOrder = FALSE
 OutputDependsOnOrder = FALSE
 CacheLooksAtFiles = TRUE
 CacheSavedLast = TRUE
 CacheDroppedFirst = TRUE
 Drivers <- BothDrivers
 BuildCleansOnEmpty = TRUE
 BuildProbes = TRUE
 MaxEnv = 2
 MaxRuns = 3
 MaxFaults = 1
VIEW View
INVARIANTS C08_SuccessMeansCurrent C14_ForceRegenerates C13_OrderIndependent C17_FailureReported C17_CacheNotNewer
CHECK_DEADLOCK FALSE
