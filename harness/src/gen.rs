//! In-process library entry point (generate_from_config) with panic capture.
//! usage: tth gen <config.json>   (standalone GenerateConfig JSON; paths relative to cwd)
use tauri_typegen::GenerateConfig;

pub fn main(args: &[String]) -> i32 {
    if args.is_empty() {
        eprintln!("usage: tth gen <config.json>");
        return 2;
    }
    let text = match std::fs::read_to_string(&args[0]) {
        Ok(t) => t,
        Err(e) => {
            eprintln!("cannot read config: {}", e);
            return 2;
        }
    };
    let cfg: GenerateConfig = match serde_json::from_str(&text) {
        Ok(c) => c,
        Err(e) => {
            eprintln!("bad config: {}", e);
            return 2;
        }
    };
    let r = std::panic::catch_unwind(|| tauri_typegen::generate_from_config(&cfg).map_err(|e| e.to_string()));
    match r {
        Ok(Ok(files)) => {
            println!("GEN ok {}", files.join(","));
            0
        }
        Ok(Err(e)) => {
            eprintln!("GEN error: {}", e);
            1
        }
        Err(_) => {
            eprintln!("GEN panic");
            101
        }
    }
}
