"""Concretisers and observers for the project-level cases of spec/Gen_Project.tla
(discovery C03, type graphs C07/C09, emit placements C12) and module records (C02)."""
import json
import os
import shutil
from concurrent.futures import ThreadPoolExecutor

from lib import common as C
from lib import observe, runner, rustgen

PRELUDE = rustgen.PRELUDE

# ----------------------------------------------------------------------------- discovery (C03)

ATTR_TEXT = {
    "tauri_command": "#[tauri::command]\n",
    "command": "#[command]\n",
    "tauri_command_args": "#[tauri::command(rename_all = \"snake_case\")]\n",
    "command_args": "#[command(async)]\n",
    "tauri_command_after_other": "#[allow(unused)]\n#[tauri::command]\n",
    "tauri_command_before_other": "#[tauri::command]\n#[allow(unused)]\n#[inline]\n",
    "tauri_command_with_doc": "/// documented command\n#[doc = \"more docs\"]\n#[tauri::command]\n",
    "tauri_command_after_qualified": "#[tracing::instrument]\n#[tauri::command]\n",
    "command_after_qualified_args": "#[tracing::instrument(skip_all)]\n#[specta::specta]\n#[command]\n",
    "tauri_command_between_qualified": "#[cfg(all())]\n#[a::b::c]\n#[tauri::command]\n#[more::stuff(x = 1)]\n",
    "qualified_only": "#[tracing::instrument]\n#[specta::specta]\n",
    "none": "",
    "other_command": "#[other::command]\n",
    "tauri_other": "#[tauri::other]\n",
    "command_in_doc_only": "/// #[tauri::command]\n// #[command]\n",
}

VIS = {"pub": "pub ", "crate": "pub(crate) ", "private": ""}


def disc_path(pc, i):
    return {
        "root": "f%d.rs" % i,
        "depth1": "d1_%d/file.rs" % i,
        "depth3": "a%d/b/c/deep.rs" % i,
        "sibling_targets": "targets/f%d.rs" % i,
        "file_named_target": "t%d/target.rs" % i,
        "git_lookalike": ".github/f%d.rs" % i,
        "dotdir": ".hidden%d/f.rs" % i,
        "module_named_build": "mb%d/build.rs" % i,
        "module_named_mod": "mm%d/mod.rs" % i,
        "module_named_main": "mn%d/bin/main.rs" % i,
        "beside_git_file": "wt%d/m.rs" % i,
        "beside_target_file": "tf%d/m.rs" % i,
        "beside_target_link": "tl%d/m.rs" % i,
        "under_target": "target/f%d.rs" % i,
        "under_target_deep": "x%d/target/debug/build/y.rs" % i,
        "under_git": ".git/hooks/f%d.rs" % i,
        "non_rs": "f%d.rs.txt" % i,
        "rs_uppercase_ext": "f%d.RS" % i,
    }[pc]


def disc_file(case, i):
    name = "disc_cmd_%d" % i       # several words: the wrapper is called discCmd<i>, the invoked command keeps this name
    nm = case.get("nm", "plain")
    written = {"plain": name, "raw": "r#" + name, "underscore": "_" + name}[nm]
    if nm == "underscore":
        name = "_" + name
    sig = {"value": ("x: i32", " -> i32", "x"), "none": ("", "", ""), "channel": ("on_event: tauri::ipc::Channel<u32>", "", ""),
           "both": ("x: i32, on_event: tauri::ipc::Channel<u32>", " -> i32", "x"), "injected": ("app: tauri::AppHandle", "", "")}[case.get("par", "value")]
    selfp = "&self" + (", " if sig[0] else "") if case["pos"] == "impl" else ""
    fn = "%s%s%sfn %s(%s%s)%s {\n    %s\n}\n" % (
        ATTR_TEXT[case["attr"]], VIS[case["vis"]], "async " if case["async"] else "", written, selfp, sig[0], sig[1], sig[2])
    helper = "fn helper_%d() {}\n" % i
    if case["pos"] == "top":
        body = fn
    elif case["pos"] == "mod":
        body = "pub mod inner_%d {\n%s}\n" % (i, "".join("    " + l + "\n" for l in fn.rstrip("\n").split("\n")))
    else:
        body = "pub struct Holder%d;\n\nimpl Holder%d {\n%s}\n" % (i, i, "".join("    " + l + "\n" for l in fn.rstrip("\n").split("\n")))
    text = "// case %d\n%s\n%s" % (i, helper, body)
    if not case["parsable"]:
        text += "\nfn broken_%d( {\n" % i
    return name, text


def disc_project(cases):
    """cases: [(i, case)] -> (files{rel:text}, abstract files list)"""
    files = {"src/anchor.rs": "#[tauri::command]\npub fn anchor_cmd() {}\n"}
    abstract = [{"pc": "root", "parsable": True, "items": [{"k": "fn", "name": "anchor_cmd", "attr": "tauri_command", "pos": "top"}]}]
    for i, c in cases:
        name, text = disc_file(c, i)
        files["src/" + disc_path(c["pc"], i)] = text
        abstract.append({"pc": c["pc"], "parsable": bool(c["parsable"]),
                         "items": [{"k": "fn", "name": "helper_%d" % i, "attr": "none", "pos": "top"},
                                   {"k": "fn", "name": name, "attr": c["attr"], "pos": c["pos"]}]})
        if c["pc"].startswith("beside_"):
            # the marker entry (not a directory) and siblings with names sorting / hashing all around it: whichever
            # order the directory is listed in, some siblings come after the marker
            base = os.path.dirname("src/" + disc_path(c["pc"], i))
            marker = {"beside_git_file": (".git", "gitdir: ../../.git/worktrees/x\n"),
                      "beside_target_file": ("target", "not a directory\n"),
                      "beside_target_link": ("target", "SYMLINK:../elsewhere")}[c["pc"]]
            files[base + "/" + marker[0]] = marker[1]
            sibs = ["a.rs", "zz.rs", ".early.rs", "~late.rs", "sub_a/x.rs", "sub_z/deep/y.rs", "t.rs", "u.rs"]
            for k, sname in enumerate(sibs):
                cname = "sib%d_%d" % (i, k)
                files[base + "/" + sname] = "#[tauri::command]\npub fn %s() {}\n" % cname
                abstract.append({"pc": c["pc"], "parsable": True, "items": [{"k": "fn", "name": cname, "attr": "tauri_command", "pos": "top"}]})
    return files, abstract


def observe_wrappers(b):
    out = []
    if not b or not b.commands:
        return out
    for it in b.commands.items:
        if it["k"] == "function":
            inv = b.invoke_call(it)
            name = "<none>"
            if inv and inv[0]["as"] and inv[0]["as"][0].get("k") == "str":
                name = inv[0]["as"][0]["v"]
            out.append({"fn": it["n"], "invoke": name})
        elif it["k"] == "unparsable" and it.get("n"):
            out.append({"fn": it["n"], "invoke": "<unparsable:%s>" % it["n"]})
    return out


def run_project(d, name, files, mode="none", project="src", extra_cfg=None, keep=False, expect_parse=True, delivery="standalone"):
    """delivery: how settings other than flags reach the tool - "standalone" (a -c file with snake_case keys holding
    project / output / library and extra_cfg), "tauri_conf" (plugins.typegen of a discovered tauri.conf.json,
    camelCase keys).  Without extra_cfg the three basic settings are flags and there is no file."""
    root = os.path.join(d, name)
    shutil.rmtree(root, ignore_errors=True)
    rustgen.write_project(root, files)
    if extra_cfg is not None and delivery == "tauri_conf":
        def camel(k):
            parts = k.split("_")
            return parts[0] + "".join(x.capitalize() for x in parts[1:])
        tg = {"projectPath": project, "outputPath": "out", "validationLibrary": mode}
        tg.update({camel(k): v for k, v in extra_cfg.items()})
        with open(os.path.join(root, "tauri.conf.json"), "w") as f:
            json.dump({"productName": "case", "plugins": {"typegen": tg}}, f, indent=1)
        res = runner.generate(root, project=None, out=None, mode=None)
    elif extra_cfg is not None:
        with open(os.path.join(root, "cfg.json"), "w") as f:
            f.write(rustgen.standalone_config(project, "out", mode, **extra_cfg))
        res = runner.generate(root, project=None, out=None, mode=None, config="cfg.json")
    else:
        res = runner.generate(root, project=project, mode=mode)
    texts = runner.read_outputs(os.path.join(root, "out"))
    b = observe.Bindings(texts=texts) if texts else None
    if expect_parse and "Failed to parse" in res.err:
        # a case project that the analyser cannot parse would make every check built on it vacuous
        raise C.ToolError("case project %s contains a file syn cannot parse (concretiser defect):\n%s" % (name, res.err[-800:]))
    if not keep:
        shutil.rmtree(root, ignore_errors=True)
    return b, res, texts


# ----------------------------------------------------------------------------- type graphs (C07 / C09)

def prefix_ty(ty, pre):
    k = ty["k"]
    if k == "named":
        return {"k": "named", "n": pre + ty["n"]}
    if k in ("leaf", "mapped"):
        return dict(ty)
    if k == "tup":
        return {"k": "tup", "ts": [prefix_ty(x, pre) for x in ty["ts"]]}
    r = {"k": k, "a": prefix_ty(ty["a"], pre)}
    if "b" in ty:
        r["b"] = prefix_ty(ty["b"], pre)
    return r


DERIVE_SPELLINGS = {
    "both": "#[derive(Serialize, Deserialize)]\n",
    "both_with_others": "#[derive(Debug, Clone, Serialize, PartialEq, Deserialize, Default)]\n",
    "qualified": "#[derive(serde::Serialize, serde::Deserialize)]\n",
    "abs_qualified": "#[derive(::serde::Serialize, ::serde::Deserialize)]\n",
    "ser_only": "#[derive(Serialize)]\n",
    "de_only": "#[derive(Deserialize)]\n",
    "second_attribute": "#[derive(Debug, Clone)]\n#[allow(dead_code)]\n#[derive(Serialize, Deserialize)]\n",
    "qualified_among_others": "#[derive(Clone, serde::Deserialize, PartialEq)]\n",
    "mixed_qualified": "#[derive(Serialize, serde::Deserialize)]\n",
    "others_only": "#[derive(Debug, Clone, PartialEq)]\n",
    "no_derive": "",
    "derive_empty": "#[derive()]\n",
}
SERDE_DERIVES = {"both", "both_with_others", "qualified", "abs_qualified", "ser_only", "de_only", "second_attribute",
                 "qualified_among_others", "mixed_qualified"}

SLOT_PATHS = {1: "src/a_g%d.rs", 2: "src/m/b_g%d.rs", 3: "src/m/n/c_g%d.rs", 4: "src/z_g%d.rs"}


def graph_source(i, g):
    """-> ({file slot: rust text}, abstract types, abstract roots, prefix).  Slots follow g["place"] (DESIGN: the
    order of the slots' paths is the order in which the analyser walks the files); a case without a layout puts
    everything into slot 1."""
    pre = "G%d" % i
    place = g.get("place") or {}
    parts = {}
    types = {}

    def put(who, text):
        parts.setdefault(int(place.get(who, place.get("cmd", 1))), []).append(text)
    for n in g["nodes"]:
        fields = []
        lines = []
        for j, e in enumerate(g["edges"].get(n, [])):
            sp = rustgen.Speller(rotate=False)
            ty = rustgen.spell(prefix_ty(e["ty"], pre), sp)
            lines.append("    pub f%d: %s,\n" % (j, ty))
            fields.append({"ctx": e["ctx"], "to": pre + e["to"]})
            for other in e.get("also") or []:
                # a field whose type mentions several project types is an edge to each of them
                fields.append({"ctx": e["ctx"], "to": pre + other})
        serde = bool(g["serde"][n])
        dk = (g.get("derive") or {}).get(n)
        if dk:
            derive = DERIVE_SPELLINGS[dk]
            if (dk in SERDE_DERIVES) != serde:
                raise ValueError("derive spelling %s contradicts serde=%s" % (dk, serde))
        else:
            derive = "#[derive(Serialize, Deserialize)]\n" if serde else "#[derive(Debug, Clone)]\n"
        nk = (g.get("nodekind") or {}).get(n, "named")
        if nk == "unit" and not lines:
            put(n, "%spub struct %s%s;\n" % (derive, pre, n))
        elif nk == "empty_braces" and not lines:
            put(n, "%spub struct %s%s {}\n" % (derive, pre, n))
        elif nk == "enum" and not lines:
            put(n, "%spub enum %s%s {\n    First,\n    SecondOne,\n}\n" % (derive, pre, n))
        else:
            put(n, "%spub struct %s%s {\n    pub id: u32,\n%s}\n" % (derive, pre, n, "".join(lines)))
        types[pre + n] = {"serde": serde, "fields": fields}
    roots = []
    for j, r in enumerate(sorted(g["roots"], key=lambda r: r.get("ord", 0))):
        sp = rustgen.Speller(rotate=False)
        ty = rustgen.spell(prefix_ty(r["ty"], pre), sp)
        fn = "g%d_r%d" % (i, j)
        if r.get("site2"):
            # one command, two sites: A at r["site"], the second type at r["site2"]
            sp2 = rustgen.Speller(rotate=False)
            ty2 = rustgen.spell(prefix_ty(r["ty2"], pre), sp2)
            at = {r["site"]: ty, r["site2"]: ty2}
            ps = []
            if "param" in at:
                ps.append("x: %s" % at["param"])
            if "chan" in at:
                ps.append("ch: Channel<%s>" % at["chan"])
            ret = (" -> %s" % at["ret"]) if "ret" in at else ""
            put("cmd", "#[tauri::command]\npub fn %s(%s)%s {\n    todo!()\n}\n" % (fn, ", ".join(ps), ret))
            roots.append({"site": r["site"], "ctx": "direct", "to": pre + r["to"]})
            for other in r.get("also") or []:
                roots.append({"site": r["site2"], "ctx": r["ctx"], "to": pre + other})
            continue
        if r["site"] == "param":
            put("cmd", "#[tauri::command]\npub fn %s(x: %s) {}\n" % (fn, ty))
        elif r["site"] == "ret":
            put("cmd", "#[tauri::command]\npub fn %s() -> %s {\n    todo!()\n}\n" % (fn, ty))
        elif r["site"] == "chan":
            put("cmd", "#[tauri::command]\npub fn %s(ch: Channel<%s>) {}\n" % (fn, ty))
        elif r["site"] == "event":
            evn = ("g%d-%s" % (i, r["evname"])) if r.get("evname") else ("g%d-ev%d" % (i, j))
            put("cmd", "pub fn %s(app: tauri::AppHandle, x: %s) {\n    app.emit(\"%s\", x).ok();\n}\n" % (fn, ty, evn))
        elif r["site"] == "err":
            put("cmd", "#[tauri::command]\npub fn %s() -> Result<u8, %s> {\n    todo!()\n}\n" % (fn, ty))
        roots.append({"site": r["site"], "ctx": r["ctx"], "to": pre + r["to"]})
        for other in r.get("also") or []:
            # a root whose type mentions several project types counts once per mentioned type
            roots.append({"site": r["site"], "ctx": r["ctx"], "to": pre + other})
    return {k: "\n".join(v) for k, v in parts.items()}, types, roots, pre


def declared_types(b, pre):
    """type-space declarations of types.ts whose name starts with the case prefix (with duplicates, in order)"""
    out = []
    if not b or not b.types:
        return out
    import re
    pat = re.compile(r"^%s[A-Z]$" % re.escape(pre))
    for it in b.types.items:
        if it["k"] in ("interface", "alias") and pat.match(it.get("n", "")):
            out.append(it["n"])
    return out


# ----------------------------------------------------------------------------- emits (C12)

def emit_fn(i, case, name=None, payload="1", typed=None):
    """one top-level function containing one emit call at the requested placement on the requested receiver"""
    name = name or "ev%d" % i
    recv = {"app": "app", "window": "window", "webview": "webview", "self_app": "ctx.app", "self_window": "ctx.window",
            "method_result": "ctx.handle()", "global_method": "APP.get().unwrap()", "handle": "handle", "other_field": "ctx.emitter"}[case["receiver"]]
    params = {"app": "app: tauri::AppHandle", "window": "window: tauri::Window", "webview": "webview: tauri::WebviewWindow",
              "self_app": "ctx: &Ctx", "self_window": "ctx: &Ctx", "method_result": "ctx: &Ctx", "global_method": "", "handle": "handle: tauri::AppHandle",
              "other_field": "ctx: &Ctx"}[case["receiver"]]
    ev = ('"%s"' % name) if case["lit"] else "EVENT_NAME_%d" % i
    if case["method"] == "emit":
        call = "%s.emit(%s, %s)" % (recv, ev, payload)
    else:
        call = "%s.emit_to(\"main\", %s, %s)" % (recv, ev, payload)
    p = case["placed"]
    frames = list(case.get("frames") or [])
    is_async = p == "await"
    # ---- the tail form: the statement(s) that hold the call
    if p == "stmt":
        inner = ["%s;" % call]
    elif p == "let_init":
        inner = ["let _r = %s;" % call]
    elif p == "match_arm_expr":
        inner = ["match n {", "    0 => helper(),", "    _ => { let _ = 1; }", "}", "match n {", "    1 => %s.unwrap()," % call, "    _ => {}", "}"]
    elif p == "try_op":
        inner = ["%s?;" % call]
    elif p == "await":
        inner = ["%s.await;" % call]
    elif p == "unwrap_recv":
        inner = ["%s.unwrap();" % call]
    elif p == "ok_recv":
        inner = ["%s.ok();" % call]
    elif p == "tail_expr":
        inner = ["helper();", "%s" % call]
    elif p == "return_expr":
        inner = ["return %s;" % call]
    elif p == "cond":
        inner = ["if %s.is_ok() {" % call, "    helper();", "}"]
    else:
        raise ValueError(p)
    ind = lambda ls: ["    " + l for l in ls]
    # ---- the enclosing frames, innermost last
    for depth, f in enumerate(reversed(frames)):
        bare = p == "tail_expr" and depth == 0      # the block must end with the call itself
        if bare and f in ("loop", "labeled_loop"):
            inner = ["%sloop {" % ("'outer: " if f == "labeled_loop" else ""), "    if flag {", "        break;", "    }"] + ind(inner) + ["}"]
        elif bare and f == "let_init_if":
            inner = ["let _v = if flag {"] + ind(inner) + ["} else {", "    Ok(())", "};"]
        elif bare and f == "let_init_match":
            inner = ["let _v = match n {", "    1 => {"] + ind(ind(inner)) + ["    }", "    _ => Ok(()),", "};"]
        elif f == "if_then":
            inner = ["if flag {"] + ind(inner) + ["}"]
        elif f == "if_else":
            inner = ["if flag {", "    helper();", "} else {"] + ind(inner) + ["}"]
        elif f == "else_if":
            inner = ["if flag {", "    helper();", "} else if n > 1 {"] + ind(inner) + ["}"]
        elif f == "else_if_else":
            inner = ["if flag {", "    helper();", "} else if n > 1 {", "    helper();", "} else {"] + ind(inner) + ["}"]
        elif f == "if_let":
            inner = ["if let Some(_v) = next_item() {"] + ind(inner) + ["}"]
        elif f == "match_arm_block":
            inner = ["match n {", "    1 => {"] + ind(ind(inner)) + ["    }", "    _ => {}", "}"]
        elif f == "loop":
            inner = ["loop {"] + ind(inner) + ["    break;", "}"]
        elif f == "labeled_loop":
            inner = ["'outer: loop {"] + ind(inner) + ["    break 'outer;", "}"]
        elif f == "while":
            inner = ["while flag {"] + ind(inner) + ["}"]
        elif f == "while_let":
            inner = ["while let Some(_v) = next_item() {"] + ind(inner) + ["}"]
        elif f == "for":
            inner = ["for _i in 0..n {"] + ind(inner) + ["}"]
        elif f == "nested_block":
            inner = ["{", "    {"] + ind(ind(inner)) + ["    }", "}"]
        elif f == "labeled_block":
            inner = ["'blk: {"] + ind(inner) + ["}"]
        elif f == "let_init_if":
            inner = ["let _v = if flag {"] + ind(inner) + ["    1", "} else {", "    2", "};"]
        elif f == "let_init_match":
            inner = ["let _v = match n {", "    1 => {"] + ind(ind(inner)) + ["        1", "    }", "    _ => 2,", "};"]
        elif f == "unsafe_block":
            inner = ["unsafe {"] + ind(inner) + ["}"]
        elif f == "async_block":
            inner = ["let _fut = async move {"] + ind(inner) + ["};"]
        elif f == "closure":
            inner = ["let f = || {"] + ind(inner) + ["};", "f();"]
        elif f == "nested_fn":
            inner = ["fn inner(%sflag: bool, n: u32) {" % (params + ", " if params else "")] + ind(inner) + ["}"]
        else:
            raise ValueError(f)
    tail_is_last = p == "tail_expr" and not frames
    body = "".join("    %s\n" % l for l in inner)
    if p == "try_op" or tail_is_last:
        if not tail_is_last:
            body += "    Ok(())\n"
    ret = " -> Result<(), tauri::Error>" if (p == "try_op" or tail_is_last) else ""
    extra = (", " + typed) if typed else ""
    if params:
        head = "pub %sfn emitter_%d(%s, flag: bool, n: u32%s)%s {\n" % ("async " if is_async else "", i, params, extra, ret)
    else:
        # a function without parameters: the handle comes from a global
        head = "pub %sfn emitter_%d()%s {\n    let flag = true;\n    let n = 1u32;\n" % ("async " if is_async else "", i, ret)
    const = "" if case["lit"] else "const EVENT_NAME_%d: &str = \"%s\";\n" % (i, name)
    return const + head + body + "}\n"


EMIT_PRELUDE = PRELUDE + """
pub struct Ctx {
    pub app: tauri::AppHandle,
    pub window: tauri::Window,
    pub emitter: tauri::AppHandle,
}
impl Ctx {
    pub fn handle(&self) -> tauri::AppHandle {
        self.app.clone()
    }
}
static APP: std::sync::OnceLock<tauri::AppHandle> = std::sync::OnceLock::new();
fn helper() {}
fn next_item() -> Option<u8> {
    None
}

#[tauri::command]
pub fn anchor_cmd() {}
"""


def observe_listeners(b):
    out = []
    if not b or not b.events:
        return out
    for it in b.events.items:
        if it["k"] == "function":
            calls = b.listen_calls(it)
            sub = "<none>"
            if calls and calls[0]["as"] and calls[0]["as"][0].get("k") == "str":
                sub = calls[0]["as"][0]["v"]
            out.append({"fn": it["n"], "subscribed": sub, "legal": True, "payload": b.listener_payload(it)})
        elif it["k"] == "unparsable":
            import re
            m = re.search(r"listen<[^>]*>\('([^']*)'", "")
            out.append({"fn": it.get("n") or "?", "subscribed": "<unparsable:%s>" % (it.get("n") or "?"), "legal": False,
                        "payload": {"k": "unparsable"}})
    return out


def modules_event(b, texts, case):
    mods = {}
    for f in ("types", "commands", "events", "index"):
        m = b.mods.get(f + ".ts") if b else None
        if m is not None:
            mods[f] = observe.module_record(m, f)
    reexports = mods.get("index", {}).get("reexports", [])
    written = sorted(n[:-3] for n in texts if n.endswith(".ts"))
    return {"event": "Modules", "case": case, "mods": mods, "reexports": reexports, "written": written}


def validate_project_trace(d, events, name="proj", chunk=1500):
    """-> list of (index into events, why)"""
    res = []
    for ci in range(0, len(events), chunk):
        p = os.path.join(d, "%s-%d.ndjson" % (name, ci))
        C.write_ndjson(p, events[ci:ci + chunk])
        consumed, mism, r = C.validate_trace("Trace_Project", "Trace_Project", p, timeout=3000, heap="12g")
        if not consumed:
            raise C.ToolError("project trace not consumed: %s\n%s" % (p, r.out[-2000:]))
        for m in mism:
            res.append((ci + m[1] - 1, m[4]))
        os.remove(p)
    return res
