----------------------------- MODULE MC_Pipeline -----------------------------
(* Model-checking instance of Pipeline: constants that are sets/records.     *)
EXTENDS Pipeline, Json

\* one representative per output-affecting edit class of C08
AllClasses == {"cmd_added", "cmd_renamed", "param_type", "param_added", "param_renamed", "param_optional",
               "ret_type", "cmd_rename_all",
               "field_added", "field_type", "field_rename", "rename_identity", "rename_all", "skip_added",
               "variant_added", "variant_rename", "validator", "validator_changed", "range_bound", "length_min_zero",
               "event_payload", "event_renamed", "event_added", "event_struct",
               "channel_type", "channel_added",
               "mode", "type_mapping", "param_case", "field_case"}
\* what generation_cache.rs puts into the hash on the pinned tree (read from the code,
\* confirmed by the conformance run of check C08)
PinnedHashed == {"cmd_added", "cmd_renamed", "param_type", "param_added", "param_renamed", "param_optional",
                 "ret_type", "field_added", "field_type", "skip_added", "variant_added",
                 "channel_type", "channel_added", "mode", "type_mapping", "param_case", "field_case"}
SmallClasses == {"hashed", "unhashed"}
SmallHashedPinned == {"hashed"}
BothDrivers == {"cli", "build"}
CliOnly == {"cli"}

BuildOnly == {"build"}

\* Replay generation: environment steps only after a generated state exists, no forced runs,
\* with and without events at the start (so that "the project's first emit call" is a history), no visualisation
\* (that dimension has its own configs)
NoTrailingEnv == (gen = MaxRuns /\ run.pc = "idle" /\ hist # <<>>) => hist[Len(hist)][1] = "end"
ReplayConstraint ==
    /\ NoTrailingEnv
    /\ nenv <= gen
    /\ (run.pc # "idle" => ~run.wantForced)
\* model checking and the ordinary replay families start from a project that has commands
MCInit == Init /\ hasCmds = TRUE
MCSpec == MCInit /\ [][Next]_vars
ReplayInit == Init /\ hasCmds = TRUE /\ viz = FALSE
\* ... and one family starts in a project WITHOUT commands and an output directory no generation has touched
FreshInit == Init /\ hasCmds = FALSE /\ hasEvents = FALSE /\ viz = FALSE
FreshSpec == FreshInit /\ [][Next]_vars
ReplaySpec == ReplayInit /\ [][Next]_vars
\* ... and one family starts with the dependency visualisation ON (the two graph files belong to every generation, so
\* their loss is one environment step away)
VizInit == Init /\ hasCmds = TRUE /\ viz = TRUE
VizSpec == VizInit /\ [][Next]_vars

\* C17: fault plans.  A first run or a run after an output-changing edit is hit by exactly one
\* fault; recovery runs follow.
FaultConstraint ==
    /\ NoTrailingEnv
    /\ nenv <= gen
    /\ (run.pc # "idle" => ~run.wantForced)
\* ... and the same with the faulted run - and only it - FORCED (flag, configuration or both): a forced run that fails
\* must not leave a record behind either, whatever "bypassing the cache" means for the run itself
ForcedFaultConstraint ==
    /\ NoTrailingEnv
    /\ nenv <= gen
    /\ (run.pc # "idle" => (run.wantForced <=> run.fault.kind # "none"))
FaultInit == Init /\ hasCmds = TRUE /\ hasEvents = TRUE
FaultSpec == FaultInit /\ [][Next]_vars

\* C14 force histories: an unforced generation, one cache-state manipulation, then a run with
\* every combination of --force flag and configured force
ForceConstraint ==
    /\ NoTrailingEnv
    /\ nenv <= gen
    /\ (gen = 1 /\ run.pc # "idle" => ~run.wantForced)
\* ... and what a forced run leaves behind: the LAST run is plain, the one before it forced (from whatever cache
\* state the steps before produced; with MaxRuns = 2 the forced run is the very first run)
ForceThenPlainConstraint ==
    /\ NoTrailingEnv
    /\ nenv <= gen
    /\ (gen = MaxRuns /\ run.pc # "idle" => ~run.wantForced)
    /\ (gen = MaxRuns - 1 /\ run.pc # "idle" => run.wantForced)
    /\ (gen < MaxRuns - 1 /\ run.pc # "idle" => ~run.wantForced)
ForceClasses == {"param_type"}
FaultClasses == {"field_added"}

\* print every maximal history once (always-true invariant) for replay into the real tool
EmitHist == (Done /\ NoTrailingEnv) => PrintT(<<"REPLAY", ToJson([h |-> hist, ev |-> hasEvents, viz |-> viz, cmds |-> hasCmds])>>)
=============================================================================
