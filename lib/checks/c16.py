"""C16 - only the tool's own files in the output directory are ever written or removed.

Model checking : Pipeline.tla - the probe file .write_test (C16_ProbeUntouched) for every interleaving;
                 intended knobs hold, as-built knobs (BuildProbes) violate it on the build driver.
Replay         : TLC-enumerated histories (incl. runs that find no commands - also as the very first run into a
                 directory without a cache record -, a foreign .write_test, loss of files) x output-directory layouts {beside the project, inside it, nested 4 deep below
                 non-existing parents, absolute path, trailing slash, equal to the project source directory, a directory
                 whose own name contains `_generated`}
                 x drivers {generate, init, build}; the output directory is pre-populated with foreign files
                 whose names are close to the reserved ones.
Trace validation: Trace_Pipeline.tla - EVERY file-mutating system call seen by strace must hit a reserved
                 generated name directly inside the output directory (or create the directory itself; init:
                 the configuration file); recursive content hashes of the whole sandbox before/after each run
                 must agree on everything else.
"""
import json
import os
import random
import shutil
import time

from lib import common as C
from lib import pipecheck as P

PROP = "C16"


def layouts():
    def beside(st, root):
        pass

    def inside(st, root):
        st.out_rel = "src-tauri/bindings"

    def deep(st, root):
        st.out_rel = "web/src/lib/api/generated"

    def absolute(st, root):
        st.out_cfg = os.path.join(root, st.out_rel)
        st.proj_cfg = os.path.join(root, st.proj_rel)

    def slash(st, root):
        st.out_cfg = "./" + st.out_rel + "/"

    def same(st, root):
        st.out_rel = "src-tauri/src"

    def dunder(st, root):
        st.out_rel = "src/__generated__"

    def suffixed(st, root):
        st.out_rel = "src/api_generated"

    def noprefix(st, root):
        st.out_cfg = st.out_rel
        st.proj_cfg = st.proj_rel
    return [("beside", beside), ("inside", inside), ("deep", deep), ("absolute", absolute), ("slash", slash),
            ("same", same), ("noprefix", noprefix), ("dunder", dunder), ("suffixed", suffixed)]


def run(tier, seed, only=None):
    t0 = time.time()
    d = C.scratch("c16")
    verdicts = C.Verdicts(PROP)
    mc, states, transitions = P.model_check()
    rnd = random.Random(seed)
    cases = []
    lay = dict(layouts())
    if only is not None:
        for c in only:
            c["setup"] = lay[c["layout"]]
        cases = only
    else:
        hs = {}
        for drv in ("cli", "build"):
            h1, _ = P.gen_histories("Gen_Pipeline_%s_e1" % drv)
            # histories that matter for confinement: no-commands runs, foreign probe, loss, plain reruns
            keep = [h for h in h1 if any(x[0] in ("commands", "place", "lose", "events", "viz") for x in h["h"])
                    or not any(x[0] in ("edit",) for x in h["h"])]
            extra = [h for h in h1 if h not in keep]
            hs[drv] = keep + rnd.sample(extra, min(4 if tier == "quick" else len(extra), len(extra)))
        # a project WITHOUT commands generating into a directory no generation has touched (no cache record yet)
        fresh = {}
        for drv in ("cli", "build"):
            hf, _ = P.gen_histories("Gen_Pipeline_%s_fresh" % drv)
            keepf = [h for h in hf if any(x[0] in ("commands", "place", "lose") for x in h["h"]) or not any(x[0] == "edit" for x in h["h"])]
            fresh[drv] = keepf + rnd.sample([h for h in hf if h not in keepf], 2)
        for lname, setup in layouts():
            for drv in ("cli", "build", "init"):
                srcf = fresh["cli" if drv == "init" else drv]
                if tier == "quick" and lname not in ("beside", "inside"):
                    srcf = srcf[:2]
                for i, h in enumerate(srcf):
                    cases.append({"id": "%s-%s-fresh%d" % (drv, lname, i), "h": h["h"], "ev": h["ev"], "viz": h["viz"], "cmds": h.get("cmds", True),
                                  "driver": drv, "setup": setup, "layout": lname, "rich_foreign": True})
        for lname, setup in layouts():
            for drv in ("cli", "build", "init"):
                src = hs["cli" if drv == "init" else drv]
                if tier == "quick" and lname != "beside":
                    src = rnd.sample(src, min(5, len(src)))
                for i, h in enumerate(src):
                    cases.append({"id": "%s-%s-%d" % (drv, lname, i), "h": h["h"], "ev": h["ev"], "viz": h["viz"],
                                  "driver": drv, "setup": setup, "layout": lname, "rich_foreign": True})
    allev, info = P.replay_all(d, cases)
    mism = P.validate(d, allev)
    by_id = {c["id"]: c for c in cases}
    seen = set()
    nmut = sum(1 for e in allev if e["event"] == "Sys")
    for line, p, case, what in sorted(mism, key=lambda m: m[0]):
        if p != PROP or case not in by_id:
            continue
        c = by_id[case]
        kind = what[0] if isinstance(what, list) else str(what)
        target = ""
        if isinstance(what, list) and len(what) >= 3:
            target = os.path.basename(str(what[2]))
            op = what[1]
        else:
            op = ""
            target = str(what[1:])[:80] if isinstance(what, list) else ""
        key = "driver=%s what=%s op=%s target=%s" % (c["driver"], kind, op, target)
        if (key, c["layout"]) in seen:
            continue
        seen.add((key, c["layout"]))
        ridx = P.run_index_of_line(info, case, line)
        upto = P.prefix_upto_run(c["h"], ridx)
        verdicts.reject(key, "layout=%s" % c["layout"],
                        "%s driver, layout %s: %s %s %s (history %s)" % (c["driver"], c["layout"], kind, op, target, P.hist_key(c["h"], upto)),
                        {"history": c["h"], "ev": c["ev"], "viz": c["viz"], "driver": c["driver"], "layout": c["layout"]})
    rc = verdicts.finish()
    C.write_evidence(PROP, tier, seed, "model_checking", {
        "states": states, "transitions": transitions,
        "traces_validated_against_impl": len(cases),
        "samples": [{"id": c["id"], "history": P.hist_key(c["h"])} for c in cases[:: max(1, len(cases) // 6)][:6]],
        "model_checking_runs": mc, "trace_events": len(allev), "mutating_syscalls_judged": nmut,
        "layouts": [l for l, _ in layouts()], "drivers": ["cli generate", "cli init", "build"],
        "known_findings_matched": len(verdicts.known_hit),
        "rule": "TLC-enumerated histories (<=1 environment step; no-commands runs, foreign .write_test, lost files, reruns) x 7 output "
                "directory layouts x 3 drivers; output directory pre-populated with 12 foreign files and a subdirectory; every mutating "
                "syscall and a recursive before/after hash of the sandbox judged by Trace_Pipeline",
        "exhaustive": tier == "thorough",
    }, time.time() - t0, assumptions=["strace sees every file-mutating syscall of the process tree",
                                      "the sandbox directory stands for 'everything outside': mutations outside it appear as Sys events with where=elsewhere"],
        violations=len(verdicts.violations))
    shutil.rmtree(d, ignore_errors=True)
    return rc


def replay(path, seed):
    obj = json.load(open(path))
    c = obj["case"]
    return run("quick", seed, only=[{"id": "%s-%s-0" % (c["driver"], c["layout"]), "h": c["history"], "ev": c["ev"], "viz": c["viz"],
                                     "driver": c["driver"], "layout": c["layout"], "rich_foreign": True}])
