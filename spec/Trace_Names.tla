----------------------------- MODULE Trace_Names -----------------------------
(***************************************************************************)
(* Trace validation for the naming properties, judged with Names.tla:      *)
(*   Key      (C06) emitted key / literal = WireName; present iff not skip *)
(*   ArgKeys  (C04) keys declared / delivered = keys Tauri deserialises    *)
(*   Ident    (C01) identifier and property-key well-formedness            *)
(***************************************************************************)
EXTENDS Names, Json, IOUtils

Rec == ndJsonDeserialize(IOEnv.TRACE)
VARIABLE l

ASet(s) == {s[i] : i \in DOMAIN s}

KeyOk(e) ==
    /\ e.present = OnWire(e)
    /\ e.present => e.emitted = WireName(e.rule, e)
KeyWhy(e) ==
    IF e.present # OnWire(e) THEN <<"presence", "expected", OnWire(e), "observed", e.present>>
    ELSE <<"name", "expected", WireName(e.rule, e), "observed", e.emitted>>

\* C04.  e.params : <<[ident, class, optional]>> Rust parameters in order;
\*   class in {"value", "injected", "channel"}; e.pcase in {"camelCase","snake_case"}
\*   e.declared : <<[key (char seq), omittable]>> keys of the Params declaration
\*   e.delivered : <<key>> keys of the object that reaches invoke (after validation in Zod mode)
Wanted(e) == {ArgKey(e.pcase, e.params[i].ident) : i \in {j \in DOMAIN e.params : e.params[j].class # "injected"}}
WantedOmittable(e) == {ArgKey(e.pcase, e.params[i].ident) :
                         i \in {j \in DOMAIN e.params : e.params[j].class = "value" /\ e.params[j].optional}}
ArgKeysOk(e) ==
    /\ {e.declared[i].key : i \in DOMAIN e.declared} = Wanted(e)
    /\ Len(e.declared) = Cardinality(Wanted(e))
    /\ {e.declared[i].key : i \in {j \in DOMAIN e.declared : e.declared[j].omittable}} = WantedOmittable(e)
    /\ ASet(e.delivered) = Wanted(e)
ArgKeysWhy(e) ==
    <<"wanted", Wanted(e), "declared", {e.declared[i].key : i \in DOMAIN e.declared},
      "omittable wanted", WantedOmittable(e),
      "omittable declared", {e.declared[i].key : i \in {j \in DOMAIN e.declared : e.declared[j].omittable}},
      "delivered", ASet(e.delivered)>>

\* C01: a generated file parses as a module (the harness parser reports every item it could not parse),
\* every declared function / type / parameter name is a legal identifier, every property key is an
\* identifier name, a number or a quoted string
SyntaxOk(e) ==
    /\ Len(e.errors) = 0
    /\ \A i \in DOMAIN e.names : IsIdentifierName(e.names[i])
    /\ \A i \in DOMAIN e.keys : KeyWellFormed(e.keys[i])
SyntaxWhy(e) ==
    <<"unparsable items", e.errors,
      "illegal names", {e.names[i] : i \in {j \in DOMAIN e.names : ~IsIdentifierName(e.names[j])}},
      "bad keys", {e.keys[i].cs : i \in {j \in DOMAIN e.keys : ~KeyWellFormed(e.keys[j])}}>>

Judge(e) == CASE e.event = "Key" -> KeyOk(e)
              [] e.event = "Syntax" -> SyntaxOk(e)
              [] e.event = "ArgKeys" -> ArgKeysOk(e)
              [] OTHER -> FALSE
Why(e) == CASE e.event = "Key" -> KeyWhy(e)
            [] e.event = "Syntax" -> SyntaxWhy(e)
            [] e.event = "ArgKeys" -> ArgKeysWhy(e)
            [] OTHER -> <<"unknown event">>

TraceInit == l = 1
TraceNext ==
    /\ l <= Len(Rec)
    /\ IF Judge(Rec[l]) THEN TRUE ELSE PrintT(<<"MISMATCH", l, Rec[l].event, Rec[l].case, Why(Rec[l])>>)
    /\ l' = l + 1
TraceSpec == TraceInit /\ [][TraceNext]_l
TraceAccepted ==
    LET d == TLCGet("stats").diameter IN
    IF d - 1 = Len(Rec) THEN PrintT(<<"TRACE-CONSUMED", Len(Rec)>>)
    ELSE PrintT(<<"TRACE-STUCK", d, Len(Rec)>>) /\ FALSE
=============================================================================
