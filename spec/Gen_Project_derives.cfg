INIT Init
NEXT Next
CONSTANT Mode = "derives"
CONSTANT EmitDepth = 2
INVARIANT Emit
CHECK_DEADLOCK FALSE
