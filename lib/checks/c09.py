"""C09 - in Zod mode no schema is read before it is defined.

Model checking : spec/TopoSort.tla - for every acyclic graph on <=3 nodes and EVERY iteration order of the
                 hash-based collections the DFS emits dependencies first (DfsContractHolds); emission order
                 = sorted order, parameter schemas after all struct/enum schemas.
Replay         : the acyclic TLC-enumerated type graphs (all DAGs on 3 nodes x root sets; chain / diamond /
                 fan-out with each edge through each constructor context and each root site) become real
                 projects generated in Zod mode by several fresh processes.
Trace validation: Trace_Project.tla event Order: Output!DefinedBeforeUse on the parsed types module - every
                 schema identifier an `export const` right-hand side mentions eagerly (not under an arrow
                 function) is defined by an earlier statement.
"""
import json
import shutil
import time

from lib import common as C
from lib import graphcases as G
from lib import observe
from lib import projcases as PC

PROP = "C09"


def acyclic(g):
    edges = {n: [t for e in g["edges"][n] for t in [e["to"]] + list(e.get("also") or [])] for n in g["edges"]}
    state = {}

    def visit(n):
        if state.get(n) == 1:
            return False
        if state.get(n) == 2:
            return True
        state[n] = 1
        for m in edges.get(n, []):
            if not visit(m):
                return False
        state[n] = 2
        return True
    return all(visit(n) for n in edges)


def run(tier, seed):
    t0 = time.time()
    d = C.scratch("c09")
    verdicts = C.Verdicts(PROP)
    r = C.run_tlc("TopoSort", "MC_TopoSort_3", workers=8, timeout=900, heap="8g")
    if not r.ok:
        raise C.ToolError("TopoSort model violates its contract: %s" % r.error)
    cases, total = G.generate(tier, seed)
    cases = [c for c in cases if acyclic(c)]
    reach, modules = G.observe(d, cases, modes=("zod",), repeats=2 if tier == "quick" else 6)
    events = []
    for m in modules:
        if "types" in m["mods"]:
            events.append({"event": "Order", "case": m["case"], "module": m["mods"]["types"]})
    mism = PC.validate_project_trace(d, events, "c09", chunk=60)
    for idx, why in mism:
        ev = events[idx]
        txt = str(why)
        import re
        pairs = sorted(set(re.findall(r'<<"(\w+)", "(\w+)">>', txt)))
        for a, b in pairs[:20]:
            ka = re.sub(r"G\d+", "G", a)
            kb = re.sub(r"G\d+", "G", b)
            verdicts.reject("reader=%s read=%s" % (ka, kb), "before definition",
                            "types.ts (Zod): `%s` mentions `%s` before `%s` is defined (project %s)" % (a, b, b, ev["case"]),
                            {"case": ev["case"], "reader": a, "read": b})
        if not pairs:
            verdicts.reject("order " + txt[:80], "early read", txt[:300], {"case": ev["case"]})
    rc = verdicts.finish()
    nconst = sum(1 for e in events for dd in e["module"]["decls"] if dd["kind"] == "const")
    C.write_evidence(PROP, tier, seed, "model_checking", {
        "states": r.distinct, "transitions": r.generated,
        "traces_validated_against_impl": len(events),
        "samples": [{"case": e["case"], "consts": [dd["name"] for dd in e["module"]["decls"] if dd["kind"] == "const"][:8]} for e in events[:3]],
        "acyclic_graphs": len(cases), "schema_statements_checked": nconst,
        "known_findings_matched": len(verdicts.known_hit),
        "rule": "model: all digraphs on 3 nodes x all requested sets x all iteration orders (DFS step machine); impl: %d acyclic "
                "TLC-enumerated graphs packed into projects, Zod mode, %d fresh processes each" % (len(cases), 2 if tier == "quick" else 6),
        "exhaustive": tier == "thorough",
    }, time.time() - t0, assumptions=["a reference under an arrow function (z.lazy) is not an eager read"],
        violations=len(verdicts.violations))
    shutil.rmtree(d, ignore_errors=True)
    return rc


def replay(path, seed):
    return run("quick", seed)
