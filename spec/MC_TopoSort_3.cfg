SPECIFICATION DfsSpec
CONSTANTS Nodes = {"T0","T1","T2"}
INVARIANTS DfsTypeOK DfsContractHolds
PROPERTIES DfsTerminates
CHECK_DEADLOCK FALSE
