SPECIFICATION Spec
CONSTANTS
 Classes <- SmallClasses
 HashedClasses <- SmallClasses
 VizHashed = TRUE
 FlagOverwritesConfig = FALSE
 EventsHashed = TRUE
 NOrders = 2
 KeyDependsOnOrder = FALSE
 OutputDependsOnOrder = FALSE
 CacheLooksAtFiles = TRUE
 CacheSavedLast = TRUE
 CacheDroppedFirst = TRUE
 Drivers <- BothDrivers
 BuildCleansOnEmpty = FALSE
 BuildProbes = FALSE
 MaxEnv = 2
 MaxRuns = 3
 MaxFaults = 1
VIEW View
INVARIANTS C08_SuccessMeansCurrent C14_ForceRegenerates C13_OrderIndependent C17_FailureReported C17_CacheNotNewer
PROPERTIES C14_NoChangeNoWrite C16_ProbeUntouched
CHECK_DEADLOCK FALSE
