INIT Init
NEXT Next
CONSTANT Mode = "emits"
CONSTANT EmitDepth = 3
INVARIANT Emit
CHECK_DEADLOCK FALSE
