--------------------------- MODULE Trace_TopoSort ---------------------------
(***************************************************************************)
(* Trace validation for C20: every recorded return value of the real       *)
(* TypeDependencyGraph::topological_sort_types / DependencyResolver::      *)
(* resolve_build_order is judged by the contract operators of DepGraph.    *)
(* Events are independent, so a rejected event is printed (MISMATCH) and   *)
(* the walk continues; acceptance = every line consumed and no MISMATCH.   *)
(***************************************************************************)
EXTENDS DepGraph, Json, IOUtils

Rec == ndJsonDeserialize(IOEnv.TRACE)

VARIABLE l

AsSet(s) == {s[i] : i \in DOMAIN s}

TopoOk(e) ==
    LET ns == AsSet(e.nodes)
        deps == [n \in ns |-> AsSet(e.deps[n])]
    IN TopoContract(deps, AsSet(e.requested), e.result)

KahnOk(e) ==
    LET ns == AsSet(e.nodes)
        uses == {<<e.uses[i][1], e.uses[i][2]>> : i \in DOMAIN e.uses}
    IN KahnContract(ns, uses, [ok |-> e.ok, order |-> e.order])

Judge(e) ==
    CASE e.event = "TopoCall" -> TopoOk(e)
      [] e.event = "KahnCall" -> KahnOk(e)
      [] OTHER -> FALSE

TraceInit == l = 1
TraceNext ==
    /\ l <= Len(Rec)
    /\ IF Judge(Rec[l]) THEN TRUE ELSE PrintT(<<"MISMATCH", l, Rec[l].event, Rec[l].case>>)
    /\ l' = l + 1
TraceSpec == TraceInit /\ [][TraceNext]_l

TraceAccepted ==
    LET d == TLCGet("stats").diameter IN
    IF d - 1 = Len(Rec) THEN PrintT(<<"TRACE-CONSUMED", Len(Rec)>>)
    ELSE PrintT(<<"TRACE-STUCK", d, Len(Rec)>>) /\ FALSE
=============================================================================
