INIT Init
NEXT Next
CONSTANT Mode = "disc"
INVARIANT Emit
CHECK_DEADLOCK FALSE
