//! C20 conformance: call the real ordering routines through their public API.
//!
//! Input  (--cases FILE): ndjson, one case per line, as printed by TLC from
//!        spec/Gen_TopoSort.tla:  {"kind":"topo","nodes":[..],"deps":{n:[..]},"requested":[..]}
//!                                {"kind":"kahn","nodes":[..],"uses":[[from,to],..]}
//!        or (--enumerate N) all digraphs on N labelled nodes x all non-empty requested sets
//!        and all digraphs on N nodes for the resolver; (--random COUNT --max-nodes M --seed S).
//! Output (--out FILE): ndjson events TopoCall / KahnCall with the returned values.
//! Every call is repeated --reps times; each HashMap/HashSet instance draws a fresh
//! RandomState, so iteration orders differ between repetitions.  Only distinct
//! (case, result) pairs are written.
use serde_json::{json, Value};
use std::collections::{BTreeMap, BTreeSet, HashSet};
use std::io::{BufRead, Write};
use tauri_typegen::analysis::dependency_graph::TypeDependencyGraph;
use tauri_typegen::build::dependency_resolver::{
    Dependency, DependencyNode, DependencyNodeType, DependencyResolver, DependencyType,
};

struct Rng(u64);
impl Rng {
    fn next(&mut self) -> u64 {
        self.0 ^= self.0 << 13;
        self.0 ^= self.0 >> 7;
        self.0 ^= self.0 << 17;
        self.0
    }
    fn below(&mut self, n: u64) -> u64 {
        self.next() % n
    }
}

fn node_name(i: usize) -> String {
    format!("T{}", i)
}

/// deps: node -> list of deps (may contain a node not otherwise mentioned)
fn run_topo(
    nodes: &[String],
    deps: &BTreeMap<String, Vec<String>>,
    requested: &[String],
    variant: u64,
) -> Vec<String> {
    let mut g = TypeDependencyGraph::new();
    // Two public ways of recording edges exist; alternate between them, and
    // alternate between "no entry" and "empty entry" for nodes without deps.
    for n in nodes {
        let d = deps.get(n).cloned().unwrap_or_default();
        if d.is_empty() {
            if variant % 2 == 0 {
                g.add_dependencies(n.clone(), HashSet::new());
            }
        } else if variant % 3 == 0 {
            for x in &d {
                g.add_dependency(n.clone(), x.clone());
            }
        } else {
            g.add_dependencies(n.clone(), d.iter().cloned().collect());
        }
    }
    let req: HashSet<String> = requested.iter().cloned().collect();
    g.topological_sort_types(&req)
}

fn mk_node(name: &str) -> DependencyNode {
    DependencyNode {
        name: name.to_string(),
        path: format!("src/{}.rs", name),
        node_type: DependencyNodeType::Struct,
    }
}

fn run_kahn(nodes: &[String], uses: &[(String, String)], variant: u64) -> (bool, Vec<String>) {
    let mut r = DependencyResolver::new();
    let mut order: Vec<usize> = (0..uses.len()).collect();
    if variant % 2 == 1 {
        order.reverse();
    }
    if variant % 4 >= 2 {
        for n in nodes.iter().rev() {
            r.add_node(mk_node(n));
        }
    } else {
        for n in nodes {
            r.add_node(mk_node(n));
        }
    }
    for i in order {
        let (f, t) = &uses[i];
        r.add_dependency(Dependency {
            from: mk_node(f),
            to: mk_node(t),
            dependency_type: DependencyType::Field,
        });
    }
    match r.resolve_build_order() {
        Ok(v) => (true, v.into_iter().map(|n| n.name).collect()),
        Err(_) => (false, vec![]),
    }
}

struct Out {
    w: std::io::BufWriter<std::fs::File>,
    progress: std::fs::File,
    calls: u64,
    distinct: u64,
}

impl Out {
    fn topo(&mut self, nodes: &[String], deps: &BTreeMap<String, Vec<String>>, requested: &[String], reps: u64, case_id: &str) {
        let _ = writeln!(self.progress, "topo {}", case_id);
        let mut seen: BTreeSet<Vec<String>> = BTreeSet::new();
        for v in 0..reps {
            let res = run_topo(nodes, deps, requested, v);
            self.calls += 1;
            if seen.insert(res.clone()) {
                self.distinct += 1;
                let full: BTreeMap<String, Vec<String>> = nodes
                    .iter()
                    .map(|n| (n.clone(), deps.get(n).cloned().unwrap_or_default()))
                    .collect();
                let ev = json!({"event":"TopoCall","case":case_id,"nodes":nodes,"deps":full,"requested":requested,"result":res});
                writeln!(self.w, "{}", ev).unwrap();
            }
        }
    }
    fn kahn(&mut self, nodes: &[String], uses: &[(String, String)], reps: u64, case_id: &str) {
        let _ = writeln!(self.progress, "kahn {}", case_id);
        let mut seen: BTreeSet<(bool, Vec<String>)> = BTreeSet::new();
        for v in 0..reps {
            let res = run_kahn(nodes, uses, v);
            self.calls += 1;
            if seen.insert(res.clone()) {
                self.distinct += 1;
                let u: Vec<Value> = uses.iter().map(|(f, t)| json!([f, t])).collect();
                let ev = json!({"event":"KahnCall","case":case_id,"nodes":nodes,"uses":u,"ok":res.0,"order":res.1});
                writeln!(self.w, "{}", ev).unwrap();
            }
        }
    }
}

fn strs(v: &Value) -> Vec<String> {
    v.as_array()
        .map(|a| a.iter().filter_map(|x| x.as_str().map(|s| s.to_string())).collect())
        .unwrap_or_default()
}

pub fn main(args: &[String]) -> i32 {
    let mut cases: Option<String> = None;
    let mut out: Option<String> = None;
    let mut enumerate: Option<usize> = None;
    let mut random: u64 = 0;
    let mut max_nodes: usize = 12;
    let mut seed: u64 = 1;
    let mut reps: u64 = 8;
    let mut chunk: Option<(u64, u64)> = None; // (index, of)
    let mut i = 0;
    while i < args.len() {
        let a = args[i].as_str();
        let v = args.get(i + 1).cloned().unwrap_or_default();
        match a {
            "--cases" => cases = Some(v),
            "--out" => out = Some(v),
            "--enumerate" => enumerate = v.parse().ok(),
            "--random" => random = v.parse().unwrap_or(0),
            "--max-nodes" => max_nodes = v.parse().unwrap_or(12),
            "--seed" => seed = v.parse().unwrap_or(1),
            "--reps" => reps = v.parse().unwrap_or(8),
            "--chunk" => {
                let p: Vec<u64> = v.split('/').filter_map(|x| x.parse().ok()).collect();
                if p.len() == 2 {
                    chunk = Some((p[0], p[1]));
                }
            }
            _ => {
                eprintln!("topo: unknown arg {}", a);
                return 2;
            }
        }
        i += 2;
    }
    let out = match out {
        Some(o) => o,
        None => {
            eprintln!("topo: --out required");
            return 2;
        }
    };
    let mut o = Out {
        w: std::io::BufWriter::new(std::fs::File::create(&out).unwrap()),
        progress: std::fs::File::create(format!("{}.progress", out)).unwrap(),
        calls: 0,
        distinct: 0,
    };
    let mut ncases: u64 = 0;
    if let Some(path) = cases {
        let f = std::io::BufReader::new(std::fs::File::open(path).unwrap());
        for (ln, line) in f.lines().enumerate() {
            let line = line.unwrap();
            if line.trim().is_empty() {
                continue;
            }
            let v: Value = serde_json::from_str(&line).unwrap();
            let nodes = strs(&v["nodes"]);
            let id = format!("tlc{}", ln + 1);
            match v["kind"].as_str() {
                Some("topo") => {
                    let mut deps = BTreeMap::new();
                    if let Some(m) = v["deps"].as_object() {
                        for (k, d) in m {
                            deps.insert(k.clone(), strs(d));
                        }
                    }
                    o.topo(&nodes, &deps, &strs(&v["requested"]), reps, &id);
                }
                Some("kahn") => {
                    let uses: Vec<(String, String)> = v["uses"]
                        .as_array()
                        .map(|a| a.iter().map(|p| { let s = strs(p); (s[0].clone(), s[1].clone()) }).collect())
                        .unwrap_or_default();
                    o.kahn(&nodes, &uses, reps, &id);
                }
                _ => {}
            }
            ncases += 1;
        }
    }
    if let Some(n) = enumerate {
        let nodes: Vec<String> = (0..n).map(node_name).collect();
        let ngraphs: u64 = 1u64 << (n * n);
        for gbits in 0..ngraphs {
            if let Some((ci, cof)) = chunk {
                if gbits % cof != ci {
                    continue;
                }
            }
            let mut deps: BTreeMap<String, Vec<String>> = BTreeMap::new();
            let mut uses: Vec<(String, String)> = Vec::new();
            for a in 0..n {
                let mut d = Vec::new();
                for b in 0..n {
                    if gbits >> (a * n + b) & 1 == 1 {
                        d.push(node_name(b));
                        uses.push((node_name(a), node_name(b)));
                    }
                }
                deps.insert(node_name(a), d);
            }
            for rbits in 1..(1u64 << n) {
                let req: Vec<String> = (0..n).filter(|k| rbits >> k & 1 == 1).map(node_name).collect();
                o.topo(&nodes, &deps, &req, reps, &format!("g{}r{}", gbits, rbits));
                ncases += 1;
            }
            o.kahn(&nodes, &uses, reps, &format!("g{}", gbits));
            ncases += 1;
        }
    }
    if random > 0 {
        let mut rng = Rng(seed.wrapping_mul(0x9E3779B97F4A7C15) | 1);
        for c in 0..random {
            let n = 2 + rng.below((max_nodes - 1) as u64) as usize;
            let nodes: Vec<String> = (0..n).map(node_name).collect();
            // density between sparse and dense; sometimes force acyclic (edges only to lower index)
            let acyclic = rng.below(2) == 0;
            let dens = 1 + rng.below(5);
            let mut deps: BTreeMap<String, Vec<String>> = BTreeMap::new();
            let mut uses: Vec<(String, String)> = Vec::new();
            for a in 0..n {
                let mut d = Vec::new();
                for b in 0..n {
                    if acyclic && b >= a {
                        continue;
                    }
                    if rng.below(10) < dens {
                        d.push(node_name(b));
                        uses.push((node_name(a), node_name(b)));
                        if rng.below(8) == 0 {
                            uses.push((node_name(a), node_name(b))); // duplicate record
                        }
                    }
                }
                deps.insert(node_name(a), d);
            }
            let mut req: Vec<String> = (0..n).filter(|_| rng.below(3) == 0).map(node_name).collect();
            if req.is_empty() {
                req.push(node_name(rng.below(n as u64) as usize));
            }
            o.topo(&nodes, &deps, &req, reps, &format!("rnd{}s{}", c, seed));
            o.kahn(&nodes, &uses, reps, &format!("rnd{}s{}", c, seed));
            ncases += 2;
        }
    }
    o.w.flush().unwrap();
    println!("{}", json!({"cases": ncases, "calls": o.calls, "distinct_results": o.distinct}));
    0
}
