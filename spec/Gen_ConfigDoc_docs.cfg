INIT Init
NEXT Next
CONSTANT Mode = "docs"
INVARIANT Emit
CHECK_DEADLOCK FALSE
