"""Shared machinery of the type-translation checks (C05, C10, C18):
TLC-enumerated Rust type ASTs -> concrete projects -> real CLI -> parsed output -> observations."""
import json
import os
import shutil
from concurrent.futures import ThreadPoolExecutor

from lib import common as C
from lib import observe, runner, rustgen

SITES = ("field", "param", "ret", "chan", "event")
MODES = ("none", "zod")
BATCH = 100


def generate_types(tier, seed, d, cfg=None, simulate=True, keyf=None, min_cases=1000):
    """-> list of abstract type ASTs (dicts), exhaustive part first, then simulated deep samples."""
    if cfg is None:
        cfg = "Gen_Types_d3" if tier == "thorough" else "Gen_Types_d2x"
    g = C.run_tlc("Gen_Types", cfg, workers=4, timeout=1800, heap="8g")
    exhaustive = g.json_lines("REPLAY")
    if len(exhaustive) < min_cases:
        raise C.ToolError("Gen_Types produced %d cases\n%s" % (len(exhaustive), g.out[-2000:]))
    num = 60 if tier == "quick" else 400
    depth = 5 if tier == "quick" else 6
    sampled = []
    s = None
    if simulate:
        s = C.run_tlc("Gen_Types", "Gen_Types_sim", workers=1, timeout=600,
                      simulate="num=%d" % num, extra=["-depth", str(depth), "-seed", str(seed)])
        sampled = s.json_lines("REPLAY")
    seen = set()
    out = []
    for t in exhaustive + sampled:
        key = keyf(t) if keyf else rustgen.canon(t)
        if key in seen:
            continue
        seen.add(key)
        out.append(t)
    return out, len(exhaustive), len(sampled), g, s


def _observe_case(b, idx, site, mode):
    """-> (lang, ts_ast, zod_ast)"""
    MISSING = observe.MISSING
    NONE = observe.NONE
    UNP = {"k": "unparsable"}
    if site in ("field", "param"):
        if site == "field":
            mem = b.members_of_type("F%d" % idx)
            key = "f"
        else:
            fn = b.command_fn("p%d" % idx)
            mem = b.params_of_fn(fn)
            key = "a"
            if fn is None and b.command_broken("p%d" % idx):
                mem = {"kind": "unparsable", "members": {}}
        if mem and mem.get("kind") == "unparsable":
            return ("ts", UNP, NONE) if mode == "none" else ("zod", NONE, UNP)
        if not mem or key not in mem["members"]:
            return ("ts", MISSING, NONE) if mode == "none" else ("zod", NONE, MISSING)
        m = mem["members"][key]
        if m["zod"].get("k") != "none":
            return "zod", NONE, m["zod"]
        return "ts", m["t"], NONE
    if site == "ret":
        fn = b.command_fn("r%d" % idx)
        if fn is None and b.command_broken("r%d" % idx):
            return "ts", UNP, NONE
        return "ts", b.return_type_of_fn(fn), NONE
    if site == "chan":
        fn = b.command_fn("h%d" % idx)
        mem = b.params_of_fn(fn)
        if (fn is None and b.command_broken("h%d" % idx)) or (mem and mem.get("kind") == "unparsable"):
            return "ts", UNP, NONE
        if not mem or "ch" not in mem["members"]:
            return "ts", MISSING, NONE
        t = mem["members"]["ch"]["t"]
        if t.get("k") == "ref" and t.get("n") == "Channel" and len(t.get("args", [])) == 1:
            return "ts", t["args"][0], NONE
        return "ts", {"k": "notchannel"}, NONE
    if site == "event":
        for fn in b.listener_fns():
            if fn["n"] == "onEv%d" % idx:
                return "ts", b.listener_payload(fn), NONE
        if b.events and b.events.broken("onEv%d" % idx):
            return "ts", UNP, NONE
        return "ts", MISSING, NONE
    raise ValueError(site)


def run_batch(d, bi, cases, mode, extra_cfg=None, keep=False, extra_src=""):
    """cases: [(idx, named_ast)] -> (Bindings or None, RunResult, texts, spellings)"""
    root = os.path.join(d, "b%d-%s" % (bi, mode))
    src, spellings = rustgen.types_project(cases)
    src += extra_src
    files = {"src/lib.rs": src}
    config = None
    if extra_cfg:
        files["typegen.cfg.json"] = rustgen.standalone_config("src", "out", mode, **extra_cfg)
        config = "typegen.cfg.json"
    rustgen.write_project(root, files)
    if config:
        res = runner.generate(root, project=None, out=None, mode=None, config=config)
    else:
        res = runner.generate(root, mode=mode)
    texts = runner.read_outputs(os.path.join(root, "out"))
    if "Failed to parse" in res.err:
        raise C.ToolError("type case project b%d contains a file syn cannot parse (concretiser defect):\n%s" % (bi, res.err[-800:]))
    b = observe.Bindings(texts=texts) if res.rc == 0 and texts else None
    if not keep:
        shutil.rmtree(root, ignore_errors=True)
    return b, res, texts, spellings


def referenced_names(ast):
    """every type/schema name an observed AST refers to"""
    out = set()

    def go(x):
        if isinstance(x, list):
            for y in x:
                go(y)
        elif isinstance(x, dict):
            k = x.get("k")
            if k == "ref":
                out.add(x["n"])
            elif k == "schemaref":
                out.add(x["n"])
                if x.get("alias"):
                    out.add(x["alias"])
            elif k == "typeof":
                out.add(x["n"])
            for v in x.values():
                go(v)
    go(ast)
    return sorted(out)


def observe_types(d, types, extra_cfg=None, sites=SITES, modes=MODES, progress=None, extra_src=""):
    """Run all types through the real generator.
    Yields dicts: {idx, site, mode, lang, ts, zod, rust(named ast), key, spelling, run_status}"""
    named = []
    for i, t in enumerate(types):
        nt, _ = rustgen.name_leaves(t)
        named.append((i, nt))
    batches = [named[i:i + BATCH] for i in range(0, len(named), BATCH)]
    jobs = []
    for bi, cases in enumerate(batches):
        for mode in modes:
            jobs.append((bi, cases, mode))
    results = []
    failures = []
    runs = [0]

    def work(job):
        bi, cases, mode = job
        out = []
        stack = [cases]
        sub = 0
        while stack:
            cs = stack.pop()
            sub += 1
            b, res, texts, spellings = run_batch(d, bi * 1000 + sub, cs, mode, extra_cfg, extra_src=extra_src)
            declared = sorted(b.types.by_name.keys()) if (b is not None and b.types) else []
            runs[0] += 1
            if b is None and len(cs) > 1:
                mid = len(cs) // 2
                stack.append(cs[:mid])
                stack.append(cs[mid:])
                continue
            if b is None:
                failures.append({"idx": cs[0][0], "mode": mode, "status": res.status, "stderr": res.err[-400:]})
            for idx, ast in cs:
                for site in sites:
                    if b is None:
                        lang, ts, zod = ("ts", {"k": "missing"}, observe.NONE)
                    else:
                        lang, ts, zod = _observe_case(b, idx, site, mode)
                    out.append({"idx": idx, "site": site, "mode": mode, "lang": lang, "ts": ts, "zod": zod,
                                "rust": ast, "key": rustgen.canon(types[idx]),
                                "spelling": spellings[idx][site], "run_status": res.status,
                                "declared": declared})
                    if os.environ.get("VERIF_KEEP_UNPARSABLE") and (ts.get("k") == "unparsable" or zod.get("k") == "unparsable"):
                        kd = os.path.join(os.environ["VERIF_KEEP_UNPARSABLE"], "b%d-%s" % (bi, mode))
                        os.makedirs(kd, exist_ok=True)
                        for fn_, tx in (texts or {}).items():
                            open(os.path.join(kd, fn_), "w").write(tx)
                        open(os.path.join(kd, "lib.rs"), "w").write(rustgen.types_project(cs)[0])
        return out

    with ThreadPoolExecutor(max_workers=min(12, C.NCPU)) as ex:
        for out in ex.map(work, jobs):
            results.extend(out)
    return results, failures, runs[0]


def minimal_rejections(types, rejected):
    """rejected: set of (idx, site, mode).  A rejected case is minimal iff every proper subterm
    (as a case of the same site and mode) is accepted.  -> (minimal list, nonminimal count)"""
    index = {rustgen.canon(t): i for i, t in enumerate(types)}
    minimal = []
    non = 0
    for (idx, site, mode) in sorted(rejected):
        subs = rustgen.all_subterms(types[idx])
        bad = False
        for s in subs:
            j = index.get(rustgen.canon(s))
            if j is not None and (j, site, mode) in rejected:
                bad = True
                break
        if bad:
            non += 1
        else:
            minimal.append((idx, site, mode))
    return minimal, non


def head_signature(t):
    """Coarse diagnosis key of a minimal rejected type K(args): constructor + the set of composite
    argument heads (leaf arguments are irrelevant once every proper subterm is accepted)."""
    def head(x):
        return "L" if x["k"] == "leaf" else ("N" if x["k"] == "named" else x["k"])
    k = t["k"]
    if k in ("leaf", "named", "mapped"):
        return t["c"] if k == "leaf" else head(t)
    args = rustgen.subterms(t)
    comp = sorted({head(a) for a in args if a["k"] not in ("leaf",)})
    leaves = sorted({head(a) for a in args if a["k"] == "leaf"})
    if k == "tup":
        return "tup[%s]" % ",".join(comp) if comp else "tup[leaves]"
    if comp:
        return "%s[%s]" % (k, ",".join(head(a) for a in args))
    return "%s[%s]" % (k, ",".join(leaves))
