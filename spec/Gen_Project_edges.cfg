INIT Init
NEXT Next
CONSTANT Mode = "edges"
INVARIANT Emit
CHECK_DEADLOCK FALSE
