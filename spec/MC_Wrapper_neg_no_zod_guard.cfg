CONSTANT Variant = "no_zod_guard"
SPECIFICATION Spec
INVARIANT ProtocolHolds
CHECK_DEADLOCK FALSE
