------------------------------- MODULE InitCmd -------------------------------
(***************************************************************************)
(* Beyond the listed properties (X04): the decision table of               *)
(* `cargo tauri-typegen init` (src/bin/cargo-tauri-typegen.rs run_init).   *)
(*                                                                         *)
(* case : [output  : "default" | "conf_bare" | "conf_in_dir" |             *)
(*                   "custom_bare" | "custom_in_dir",   the --output value  *)
(*         exists  : BOOLEAN,   the file init would write exists already    *)
(*         force   : BOOLEAN,   --force                                     *)
(*         library : "absent" | "zod" | "none" | "bogus"]  --validation     *)
(*                                                                         *)
(* Target(case): "project_conf" (tauri.conf.json inside the project path:  *)
(* the default, and a bare `tauri.conf.json`), "given_conf" (a             *)
(* tauri.conf.json at the given directory) or "custom" (any other name).   *)
(***************************************************************************)
EXTENDS Naturals

Outputs == {"default", "conf_bare", "conf_in_dir", "custom_bare", "custom_in_dir"}

IsConf(c) == c.output \in {"default", "conf_bare", "conf_in_dir"}
Target(c) == IF c.output \in {"default", "conf_bare"} THEN "project_conf"
             ELSE IF c.output = "conf_in_dir" THEN "given_conf" ELSE "custom"

\* what init does with the configuration file
ConfigAction(c) ==
    IF ~IsConf(c) /\ c.exists /\ ~c.force THEN "refuse_exists"        \* never overwrite a custom file silently
    ELSE IF IsConf(c) /\ ~c.exists THEN "refuse_missing"              \* never create a tauri.conf.json
    ELSE IF IsConf(c) THEN "merge_into_conf"                          \* C19: everything else preserved
    ELSE "write_custom"

LibraryOK(c) == c.library # "bogus"

\* settings are validated before anything is written (the pinned tree wrote the configuration first and let the
\* first generation reject it - repaired by feafd7b, found by this table: deviation ConfigWrittenBeforeValidation)
Expected(c) ==
    LET a == ConfigAction(c) IN
    IF a \in {"refuse_exists", "refuse_missing"} \/ ~LibraryOK(c)
    THEN [status |-> "err", config |-> "untouched", bindings |-> FALSE]
    ELSE [status |-> "ok", config |-> (IF a = "merge_into_conf" THEN "merged" ELSE "written"), bindings |-> TRUE]

\* what a user relies on, whatever the mechanism
Safe(c, r) ==
    /\ (r.status = "ok") => (r.bindings /\ r.config \in {"merged", "written"})
    /\ (~IsConf(c) /\ c.exists /\ ~c.force) => r.config = "untouched"       \* no silent overwrite
    /\ (IsConf(c) /\ ~c.exists) => r.config = "untouched"                   \* no tauri.conf.json created
    /\ (r.status = "err") => ~r.bindings
=============================================================================
