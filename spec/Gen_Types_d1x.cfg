INIT Init
NEXT Next
CONSTANTS MaxDepth = 1
 ExtraLeaves <- StrAndNamed
 LeafMode = "plain"
 WithPairs = TRUE
INVARIANT Emit
CHECK_DEADLOCK FALSE
