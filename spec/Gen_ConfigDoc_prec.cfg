INIT Init
NEXT Next
CONSTANT Mode = "prec"
INVARIANT Emit
CHECK_DEADLOCK FALSE
