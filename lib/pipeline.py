"""Replays Pipeline histories (TLC-generated or hand-scheduled) on the REAL tool and records trace events.

A sandbox is a directory tree:
    sb/typegen.json            standalone configuration (read by `-c typegen.json` and by the build driver)
    sb/src-tauri/src/*.rs      the project (rendered from the abstract state)
    sb/src/generated/          the output directory (pre-populated with foreign files)
    sb/src/app.ts, sb/notes/   foreign files outside the output directory
Runs are executed under strace (file-mutating system calls -> Sys events; -P <path> with
inject= for faults).  Nothing here judges: Trace_Pipeline.tla does.
"""
import hashlib
import json
import os
import re
import shutil
import subprocess

from lib import common as C
from lib import runner
from lib.tsparse import chars

OUT_REL = "src/generated"
PROJ_REL = "src-tauri"
CLASSES = ["cmd_added", "cmd_renamed", "param_type", "param_added", "param_renamed", "param_optional",
           "ret_type", "cmd_rename_all",
           "field_added", "field_type", "field_rename", "rename_identity", "rename_all", "skip_added",
           "variant_added", "variant_rename", "validator", "validator_changed", "range_bound", "length_min_zero",
           "event_payload", "event_renamed", "event_added", "event_struct",
           "channel_type", "channel_added",
           "mode", "type_mapping", "param_case", "field_case"]
FILE_OF = {"types": "types.ts", "commands": "commands.ts", "events": "events.ts", "index": "index.ts",
           "cache": ".typecache", "graphtxt": "dependency-graph.txt", "graphdot": "dependency-graph.dot",
           "probe": ".write_test"}


class State:
    def __init__(self, has_events=True, viz=False):
        self.attrs = {c: 0 for c in CLASSES}
        self.has_cmds = True
        self.has_events = has_events
        self.viz = viz
        self.force_cfg = False
        self.nfiles = 2          # number of source files that contain commands (1..6)
        self.proj_rel = PROJ_REL   # project path relative to the sandbox root
        self.out_rel = OUT_REL     # output path relative to the sandbox root (normalised)
        self.transform = set()     # C13 semantics-preserving source transformations: noise decoys reorder moved split
        self.verbose_cfg = False
        self.symlink = False       # a second path to cmds/a.rs through a symbolic link inside the scanned tree
        self.qualmaps = False      # type_mappings holds several path-qualified keys with one last segment
        self.rich_events = True    # the project's events include one whose payload struct nothing else reaches
        self.out_cfg = None        # spelling of the output path in the configuration (None = "./" + out_rel)
        self.proj_cfg = None

    def key(self):
        return json.dumps([self.attrs, self.has_cmds, self.has_events, self.viz, self.nfiles, self.rich_events, self.qualmaps, self.symlink], sort_keys=True)


def render(st):
    a = st.attrs
    cmd = "#[tauri::command]\n" if st.has_cmds else ""
    user_attr = '#[serde(rename_all = "camelCase")]\n' if a["rename_all"] else ""
    email_attr = '    #[serde(rename = "mail")]\n' if a["field_rename"] else ""
    secret_attr = "    #[serde(skip)]\n" if a["skip_added"] else ""
    if a["validator"]:
        valid_attr = "    #[validate(length(min = %d, max = 20))]\n" % (3 if a["validator_changed"] else 1)
    else:
        valid_attr = "    #[validate(email)]\n" if a["validator_changed"] else ""
    extra_field = "    pub age_years: u8,\n" if a["field_added"] else ""
    variant = "    Suspended,\n" if a["variant_added"] else ""
    inactive_attr = '    #[serde(rename = "disabled")]\n' if a["variant_rename"] else ""
    zip_ty = "Option<u32>" if a["field_type"] else "Option<String>"
    # a rename that spells the identifier itself: it changes the output only because it switches the container's
    # rename_all off for this field (totalItems -> total_items)
    lat_min = "-45" if a["range_bound"] else "-90"      # a negative whole-number bound moved to another one
    street_min = "min = 0, " if a["length_min_zero"] else ""   # a bound that is the type's natural minimum appears
    report_field = "    pub eta_seconds: Option<u32>,\n" if a["event_struct"] else ""
    identity_attr = '    #[serde(rename = "total_items")]\n' if a["rename_identity"] else ""
    models = """use serde::{Deserialize, Serialize};
use std::path::PathBuf;

#[derive(Serialize, Deserialize)]
%spub struct User {
    pub user_id: u32,
%s    pub display_name: String,
%s    pub email: String,
%s    pub secret_token: String,
    pub status: Status,
    pub home: Address,
    pub avatar: PathBuf,
%s}

#[derive(Serialize, Deserialize)]
pub enum Status {
    Active,
%s    Inactive,
%s}

#[derive(Serialize, Deserialize)]
pub struct Address {
    #[validate(length(%smax = 64))]
    pub street: String,
    #[validate(range(min = %s, max = 90))]
    pub latitude: f64,
    pub zip_code: %s,
}

#[derive(Serialize, Deserialize)]
#[serde(rename_all = "camelCase")]
pub struct Progress {
    pub done: u32,
%s    pub total_items: u32,
}

#[derive(Serialize, Deserialize)]
pub struct Unused {
    pub x: i32,
}

// reaches the bindings ONLY as an event payload: no command mentions it
#[derive(Serialize, Deserialize)]
pub struct JobReport {
    pub percent: u8,
%s}
""" % (user_attr, valid_attr, email_attr, secret_attr, extra_field, inactive_attr, variant, street_min, lat_min, zip_ty, identity_attr, report_field)
    id_ty = "String" if a["param_type"] else "i32"
    ret_ty = "Vec<User>" if a["ret_type"] else "User"
    get_name = "fetch_user" if a["cmd_renamed"] else "get_user"
    id_name = "account_id" if a["param_renamed"] else "user_id"
    extra_param = ", with_avatar: bool" if a["param_added"] else ""
    home_ty = "bool" if a["param_optional"] else "Option<bool>"
    cmd_ra = '#[serde(rename_all = "snake_case")]\n' if a["cmd_rename_all"] else ""
    a_rs = """use crate::models::*;

%s%spub async fn %s(app: tauri::AppHandle, %s: %s, include_home: %s%s) -> Result<%s, String> {
    todo!()
}

%spub fn save_address(address: Address, progress: Progress) -> Result<(), String> {
    Ok(())
}

fn helper(x: i32) -> i32 {
    x
}
""" % (cmd, cmd_ra if st.has_cmds else "", get_name, id_name, id_ty, home_ty, extra_param, ret_ty, cmd)
    chan_ty = "String" if a["channel_type"] else "u32"
    # events are emitted from TWO files (events.rs and cmds/deep/b.rs): their relative order must not depend on line numbers
    announce = ("\nuse tauri::Emitter;\npub fn announce(app: tauri::AppHandle, done: bool) {\n    app.emit(\"job-announced\", done).ok();\n}\n"
                if st.has_events else "")
    extra_chan = ", on_log: Channel<String>" if a["channel_added"] else ""
    extra_cmd = ("\n%spub fn extra_cmd(flag: bool) -> bool {\n    flag\n}\n" % cmd) if a["cmd_added"] else ""
    b_rs = """use crate::models::*;
use tauri::ipc::Channel;

%spub async fn watch_progress(job_id: u32, on_progress: Channel<%s>%s) -> Result<(), String> {
    Ok(())
}

%spub fn list_statuses() -> Vec<Status> {
    vec![]
}

%spub fn stream_both(on_data: Channel<Progress>, limit: u8, on_done: Channel<u32>) {}
%s%s""" % (cmd, chan_ty, extra_chan, cmd, cmd, announce, extra_cmd)
    payload = "address: Address" if a["event_payload"] else "user: User"
    pvar = "address" if a["event_payload"] else "user"
    ev_name = "user-updated" if a["event_renamed"] else "user-changed"
    extra_ev = '    app.emit("user-extra", 7).ok();\n' if a["event_added"] else ""
    if st.has_events:
        ev_rs = """use crate::models::*;
use tauri::Emitter;

pub fn notify(app: tauri::AppHandle, %s) {
    app.emit("%s", %s).ok();
%s}

pub fn tick(window: tauri::Window) {
    window.emit("tick", 1).ok();
}

%s
// the same variable names as in `notify`, but nothing here says what their types are
pub fn report(app: tauri::AppHandle, id: u32) {
    let user = lookup(id);
    let address = user.home();
    app.emit("user-looked-up", user).ok();
    app.emit("address-looked-up", &address).ok();
}
""" % (payload, ev_name, pvar, extra_ev,
       # an emit whose payload struct nothing else reaches - only in histories whose events stay: the steps "events appear"
       # and "the last event disappears" must not add or remove a type (they have to change the events and nothing else,
       # or a cache that ignores events is excused by the struct hash)
       'pub fn report_job(app: tauri::AppHandle, report: JobReport) {\n    app.emit("job-report", report).ok();\n}\n' if st.rich_events else "")
    else:
        ev_rs = "pub fn notify() {}\n"
    cfg = {
        "project_path": st.proj_cfg or ("./" + st.proj_rel),
        "output_path": st.out_cfg or ("./" + st.out_rel),
        "validation_library": "none" if a["mode"] else "zod",
        "default_parameter_case": "snake_case" if a["param_case"] else "camelCase",
        "default_field_case": "camelCase" if a["field_case"] else "snake_case",
        "visualize_deps": bool(st.viz),
        "force": bool(st.force_cfg),
    }
    if a["type_mapping"]:
        cfg["type_mappings"] = {"PathBuf": "string"}
    if st.qualmaps:
        # keys that differ only in their path: distinct entries of the table, whatever the tool does with them it has
        # to do the same way in every process
        cfg.setdefault("type_mappings", {}).update({"chrono::Duration": "number", "std::time::Duration": "{ secs: number; nanos: number }",
                                                    "core::time::Duration": "string", "time::Duration": "bigint", "a::Money": "string", "b::Money": "number"})
    T = st.transform
    if "reorder" in T:
        models = reorder_items(models)
        a_rs = reorder_items(a_rs)
        b_rs = reorder_items(b_rs)
        ev_rs = reorder_items(ev_rs)
    if "moved" in T:
        # move the save_address command from a.rs to b.rs and the Address struct out of models.rs
        a_items = split_rust_items(a_rs)
        mv = [x for x in a_items if "fn save_address" in x]
        a_rs = "".join(x for x in a_items if "fn save_address" not in x)
        b_rs = b_rs + "\n" + "".join(mv)
        m_items = split_rust_items(models)
        addr = [x for x in m_items if "pub struct Address" in x]
        models = "".join(x for x in m_items if "pub struct Address" not in x)
        moved_addr = "use serde::{Deserialize, Serialize};\n\n" + "".join(addr)
    if "tobuildrs" in T:
        pass    # handled where the file table is assembled (cmds/deep/b.rs is written as cmds/deep/build.rs)
    if "headnoise" in T:
        # layout noise in ONE file only: shifts its line numbers relative to every other file
        ev_rs = "// a long header comment\n" + "//\n" * 57 + "\n\n" + ev_rs
        a_rs = "\n" * 3 + a_rs
    if "noise" in T:
        models = add_noise(models)
        a_rs = add_noise(a_rs)
        b_rs = add_noise(b_rs)
        ev_rs = add_noise(ev_rs)
    if "decoys" in T:
        models += DECOYS_MODELS
        a_rs += DECOYS_CMDS
    if st.nfiles == 1:
        a_rs = a_rs + "\n" + b_rs.replace("use crate::models::*;\n", "")
        b_rs = "// moved into a.rs\n"
    files = {}
    for k in range(3, st.nfiles + 1):
        files[st.proj_rel + "/src/cmds/extra/m%d.rs" % k] = (
            "use serde::{Deserialize, Serialize};\n\n#[derive(Serialize, Deserialize)]\npub struct Item%d {\n    pub label: String,\n    pub next: Option<u32>,\n}\n\n"
            "%spub fn item_%d(item: Item%d) -> Vec<Item%d> {\n    vec![item]\n}\n" % (k, cmd, k, k, k))
    files.update({
        st.proj_rel + "/src/models.rs": models,
        st.proj_rel + "/src/cmds/a.rs": a_rs,
        st.proj_rel + ("/src/cmds/deep/build.rs" if "tobuildrs" in T else "/src/cmds/deep/b.rs"): b_rs,
        st.proj_rel + "/src/events.rs": ev_rs,
        st.proj_rel + "/src/main.rs": "mod models;\nmod events;\nfn main() {}\n",
        st.proj_rel + "/target/debug/build/decoy.rs": "#[tauri::command]\npub fn decoy_in_target() {}\n",
        st.proj_rel + "/README.md": "not rust\n",
        "typegen.json": json.dumps(cfg, indent=1, sort_keys=True),
    })
    if "moved" in T:
        files[st.proj_rel + "/src/zz_address.rs"] = moved_addr
    if "split" in T:
        m_items = split_rust_items(files[st.proj_rel + "/src/models.rs"])
        half = len(m_items) // 2
        head = m_items[0] if m_items and m_items[0].lstrip().startswith("use ") else ""
        files[st.proj_rel + "/src/models.rs"] = "".join(m_items[:half])
        files[st.proj_rel + "/src/aa_models_part2.rs"] = "use serde::{Deserialize, Serialize};\nuse std::path::PathBuf;\n\n" + "".join(m_items[half:])
    if st.verbose_cfg:
        cfg["verbose"] = True
        files["typegen.json"] = json.dumps(cfg, indent=1, sort_keys=True)
    if st.symlink:
        # a second path to a file that holds only a helper type and a private function: reaching it twice adds nothing
        files[st.proj_rel + "/src/shared/util.rs"] = "use serde::{Deserialize, Serialize};\n\n#[derive(Serialize, Deserialize)]\npub struct Stamp {\n    pub at: u64,\n}\n\n#[tauri::command]\npub fn stamp_now() -> Stamp {\n    Stamp { at: 0 }\n}\n"
        files[st.proj_rel + "/src/cmds/zz_util_link.rs"] = "SYMLINK:../shared/util.rs"
    return files


DECOYS_MODELS = """
// decoys: none of this is a serde type or a command
pub struct NotSerde {
    pub hidden: u64,
}

#[derive(Debug, Clone)]
pub enum AlsoNotSerde {
    A,
    B,
}

pub const LIMIT: usize = 10;

pub type Alias = Vec<u8>;

impl NotSerde {
    #[tauri::command]
    pub fn method_not_a_command(&self, x: i32) -> i32 {
        x
    }
}

pub trait Shape {
    fn area(&self) -> f64;
}
"""

DECOYS_CMDS = """
pub fn not_a_command(a: u8) -> u8 {
    a
}

async fn private_helper() {}

mod inner {
    pub fn nested_helper() {}
}

#[allow(dead_code)]
static COUNTER: std::sync::atomic::AtomicUsize = std::sync::atomic::AtomicUsize::new(0);
"""


def split_rust_items(src):
    """split a source file into top-level items (an item starts at column 0 with an attribute, a doc
    comment or an item keyword and lasts until the next one); leading `use` lines form the first chunk"""
    lines = src.split("\n")
    chunks = []
    cur = []
    started = False

    def is_start(i):
        l = lines[i]
        if not l or l[0] in " \t}":
            return False
        if l.startswith(("#[", "///", "//")):
            # attribute / comment belongs to the following item: start only if previous line is blank or '}'
            return i == 0 or lines[i - 1].strip() in ("", "}")
        if re.match(r"(pub(\([a-z]+\))? )?(async )?(fn|struct|enum|mod|impl|const|static|type|trait|use)\b", l):
            return i == 0 or not lines[i - 1].startswith(("#[", "///"))
        return False
    for i, l in enumerate(lines):
        if is_start(i) and cur and not (l.startswith("use ") and all(x.startswith("use ") or not x.strip() for x in cur)):
            chunks.append("\n".join(cur) + "\n")
            cur = []
        cur.append(l)
    if cur:
        chunks.append("\n".join(cur))
    return chunks


def reorder_items(src):
    items = split_rust_items(src)
    if len(items) < 3:
        return src
    head, rest = items[0], items[1:]
    if not head.lstrip().startswith("use "):
        head, rest = "", items
    rest = [r if r.endswith("\n") else r + "\n" for r in rest]
    return head + "\n".join(reversed(rest))


def add_noise(src):
    out = ["// noise: a leading comment\n", "\n"]
    for l in src.split("\n"):
        out.append(l + "   " if l.strip().endswith("{") else l)
        out.append("\n")
        if l.strip() == "}":
            out.append("\n/* block comment between items */\n\n\n")
    return "".join(out)


def foreign_files(out_rel, rich=False):
    f = {
        out_rel + "/notes.md": "my notes\n",
        out_rel + "/helper.ts": "export const helper = 1;\n",
        out_rel + "/types.ts.bak": "backup\n",
        out_rel + "/sub/types.ts": "// nested, not ours\n",
        "src/app.ts": "import * as api from './generated';\n",
        "package.json": "{}\n",
    }
    if rich:
        f.update({
            out_rel + "/Types.ts": "// case differs\n",
            out_rel + "/main.ts": "console.log(1);\n",
            out_rel + "/.typecache.bak": "{}\n",
            out_rel + "/mytypes.ts": "export {};\n",
            out_rel + "/index.tsx": "export {};\n",
            out_rel + "/commands.ts.orig": "orig\n",
            out_rel + "/README": "readme\n",
            out_rel + "/sub/index.ts": "// nested\n",
            out_rel + "/types.test.ts": "// a test next to the bindings\n",
            out_rel + "/index.spec.ts": "// spec\n",
            out_rel + "/commands.mock.ts": "// mock\n",
            out_rel + "/models.local.ts": "// local\n",
            out_rel + "/types.tsx": "export {};\n",
            out_rel + "/generated.ts": "// no underscore: not reserved\n",
            out_rel + "/typesafe.ts": "export {};\n",
            out_rel + "/bindings.js": "// js\n",
            out_rel + "/schemas.json": "{}\n",
            out_rel + "/.typecache.lock": "\n",
            out_rel + "/dependency-graph.png": "png\n",
            out_rel + "/.write_test": "the user's own file of that name\n",
            out_rel + "/.gitkeep": "",
            out_rel + "/.typecache.tmp": "tmp\n",
            out_rel + "/.DS_Store": "x\n",
        })
        # every reserved base name with every near-miss pattern (a word between the base and the extension, another
        # extension, a prefix, a suffix): none of these is a reserved name
        for base in ("types", "commands", "events", "index", "schemas", "models", "bindings"):
            for pat in ("%s.test.ts", "%s.spec.ts", "%s.mock.ts", "%s.ts.bak", "%s.tsx", "%s.mts", "my%s.ts", "%s2.ts", "%s.d.tsx", "%s.ts~", "%s.js", "%s.d.ts.map"):
                f.setdefault(out_rel + "/" + pat % base, "// the user's own %s\n" % (pat % base))
        for nm in ("dependency-graph.svg", "dependency-graph.dot.bak", "dependency-graph.txt.old", "dependency-graphs.txt", "my-dependency-graph.dot",
                   ".typecache.json", ".typecache2", "x.typecache"):
            f.setdefault(out_rel + "/" + nm, "the user's own %s\n" % nm)
    return f


def file_hash(p):
    h = hashlib.sha1()
    with open(p, "rb") as f:
        h.update(f.read())
    return h.hexdigest()


def tree_hashes(root, skip_prefixes=()):
    res = {}
    for dp, dns, fns in os.walk(root):
        for fn in fns:
            p = os.path.join(dp, fn)
            rel = os.path.relpath(p, root)
            if any(rel.startswith(s) for s in skip_prefixes):
                continue
            try:
                res[rel] = file_hash(p)
            except OSError:
                res[rel] = "unreadable"
        for dn in dns:
            rel = os.path.relpath(os.path.join(dp, dn), root)
            res[rel + "/"] = "dir"
    return res


SYS_RE = re.compile(r'^(?:\[pid\s+\d+\]\s+)?(?:\d+\s+)?(\w+)\((.*)\)\s+=\s+(-?\d+|\?)(?:\s+(\w+).*)?$')


def parse_strace(path, cwd):
    """-> list of dict(op, path(abs), ok, errno)"""
    evs = []
    if not os.path.exists(path):
        return evs
    for line in open(path, errors="replace"):
        line = line.rstrip("\n")
        if "resumed>" in line or "<unfinished" in line:
            continue
        m = SYS_RE.match(line)
        if not m:
            continue
        sc, args, ret, errno = m.group(1), m.group(2), m.group(3), m.group(4)
        ok = ret not in ("?",) and not ret.startswith("-")
        strs = re.findall(r'"((?:[^"\\]|\\.)*)"', args)

        def ab(p):
            p = bytes(p, "utf8").decode("unicode_escape").encode("latin1").decode("utf8", "replace") if "\\" in p else p
            return os.path.normpath(os.path.join(cwd, p))
        if sc in ("openat", "open", "creat"):
            if not strs:
                continue
            flags = args
            if sc == "creat" or re.search(r"O_WRONLY|O_RDWR|O_CREAT|O_TRUNC|O_APPEND", flags):
                if "O_DIRECTORY" in flags and "O_CREAT" not in flags:
                    continue
                evs.append({"op": "write", "path": ab(strs[0]), "ok": ok, "errno": errno or ""})
        elif sc in ("unlink", "unlinkat", "rmdir"):
            if strs:
                evs.append({"op": "unlink", "path": ab(strs[0]), "ok": ok, "errno": errno or ""})
        elif sc in ("rename", "renameat", "renameat2"):
            if len(strs) >= 2:
                evs.append({"op": "unlink", "path": ab(strs[0]), "ok": ok, "errno": errno or ""})
                evs.append({"op": "write", "path": ab(strs[1]), "ok": ok, "errno": errno or ""})
        elif sc in ("mkdir", "mkdirat"):
            if strs:
                evs.append({"op": "mkdir", "path": ab(strs[0]), "ok": ok, "errno": errno or ""})
        elif sc in ("truncate",):
            if strs:
                evs.append({"op": "write", "path": ab(strs[0]), "ok": ok, "errno": errno or ""})
    return evs


def out_meta(outdir):
    """(mtime_ns, size, inode, sha1) of every regular file directly in the output directory"""
    res = {}
    if not os.path.isdir(outdir):
        return res
    for n in os.listdir(outdir):
        p = os.path.join(outdir, n)
        if os.path.isfile(p):
            st = os.stat(p)
            res[n] = (st.st_mtime_ns, st.st_size, st.st_ino, file_hash(p))
    res["."] = (os.stat(outdir).st_mtime_ns,)
    return res


class Sandbox:
    def __init__(self, root, state, config_name="typegen.json", rich_foreign=False):
        self.root = root
        self.state = state
        self.out_rel = state.out_rel
        self.events = []
        self.oracle_cache = {}
        self.runs = 0
        os.makedirs(root, exist_ok=True)
        self.write_state()
        for rel, text in foreign_files(self.out_rel, rich_foreign).items():
            p = os.path.join(root, rel)
            os.makedirs(os.path.dirname(p), exist_ok=True)
            with open(p, "w") as f:
                f.write(text)

    # ---- environment
    def write_state(self):
        files = render(self.state)
        for rel, text in files.items():
            p = os.path.join(self.root, rel)
            os.makedirs(os.path.dirname(p), exist_ok=True)
            if text.startswith("SYMLINK:"):
                if not os.path.islink(p):
                    os.symlink(text[len("SYMLINK:"):], p)
                continue
            old = open(p).read() if os.path.exists(p) else None
            if old != text:
                with open(p, "w") as f:
                    f.write(text)

    def env_edit(self, cls):
        self.state.attrs[cls] = 1 - self.state.attrs[cls]
        self.write_state()
        self.events.append({"event": "Env", "kind": "edit", "what": cls})

    def env_events(self, val):
        self.state.has_events = bool(val)
        self.write_state()
        self.events.append({"event": "Env", "kind": "edit", "what": "events"})

    def env_viz(self, val):
        self.state.viz = bool(val)
        self.write_state()
        self.events.append({"event": "Env", "kind": "edit", "what": "viz"})

    def env_commands(self, val):
        self.state.has_cmds = bool(val)
        self.write_state()
        self.events.append({"event": "Env", "kind": "edit", "what": "commands"})

    def env_lose(self, f):
        name = FILE_OF.get(f, f)
        p = os.path.join(self.root, self.out_rel, name)
        if os.path.exists(p):
            os.remove(p)
        self.events.append({"event": "Env", "kind": "lose", "what": name})

    def env_corrupt(self, f):
        name = FILE_OF.get(f, f)
        p = os.path.join(self.root, self.out_rel, name)
        with open(p, "w") as fh:
            fh.write("{ this is not a cache record")
        self.events.append({"event": "Env", "kind": "corrupt", "what": name})

    def env_tamper(self, f):
        """overwrite a generated file with foreign content of the same name (C14: force must rewrite it)"""
        name = FILE_OF.get(f, f)
        p = os.path.join(self.root, self.out_rel, name)
        with open(p, "w") as fh:
            fh.write("// tampered\n")
        self.events.append({"event": "Env", "kind": "lose", "what": name})

    def env_place(self, name, text="foreign\n"):
        p = os.path.join(self.root, self.out_rel, name)
        os.makedirs(os.path.dirname(p), exist_ok=True)
        with open(p, "w") as f:
            f.write(text)
        self.events.append({"event": "Env", "kind": "place", "what": name})

    def env_obstruct(self, name):
        """a directory where the file should go"""
        p = os.path.join(self.root, self.out_rel, name)
        if os.path.isfile(p):
            os.remove(p)
        os.makedirs(p, exist_ok=True)
        self.events.append({"event": "Env", "kind": "lose", "what": name})

    def env_clear(self, name):
        p = os.path.join(self.root, self.out_rel, name)
        if os.path.isdir(p):
            shutil.rmtree(p)
        self.events.append({"event": "Env", "kind": "clear", "what": name})

    # ---- oracle: what a forced generation from the current sources writes
    def oracle(self):
        k = self.state.key()
        if k in self.oracle_cache:
            return self.oracle_cache[k]
        variants = []
        tmp = self.root + ".oracle"
        for i in range(3):
            shutil.rmtree(tmp, ignore_errors=True)
            os.makedirs(tmp)
            files = render(self.state)
            for rel, text in files.items():
                p = os.path.join(tmp, rel)
                os.makedirs(os.path.dirname(p), exist_ok=True)
                with open(p, "w") as f:
                    f.write(text)
            r = runner.cli(["generate", "-c", "typegen.json", "--force"], tmp)
            outs = runner.read_outputs(os.path.join(tmp, self.out_rel))
            variants.append({n: runner.strip_timestamp(t) for n, t in outs.items()})
            if i == 1 and variants[0] == variants[1]:
                break
        shutil.rmtree(tmp, ignore_errors=True)
        self.oracle_cache[k] = variants
        return variants

    # ---- runs
    def run(self, driver="cli", flag=False, cfg=False, fault=None, probe_skip=False, extra_args=None):
        """flag: --force on the command line (CLI); cfg: force:true in the configuration file.
        fault: None | (kind, fileKey) with kind in failopen/failwrite/crash"""
        self.runs += 1
        forced = bool(flag or cfg)
        if bool(cfg) != self.state.force_cfg:
            self.state.force_cfg = bool(cfg)
            self.write_state()
        before = tree_hashes(self.root)
        strace_out = os.path.join(os.path.dirname(self.root), os.path.basename(self.root) + ".strace")
        if os.path.exists(strace_out):
            os.remove(strace_out)
        if driver == "cli":
            cmd = [C.CLI, "tauri-typegen", "generate", "-c", "typegen.json"] + (["--force"] if flag else [])
            if extra_args:
                cmd += extra_args
        elif driver == "build":
            cmd = [C.TTH, "build"]
        elif driver == "init":
            tc = os.path.join(self.root, self.state.proj_rel, "tauri.conf.json")
            if not os.path.exists(tc):
                with open(tc, "w") as f:
                    f.write(json.dumps({"productName": "demo", "build": {"devUrl": "http://localhost:1420"},
                                        "plugins": {"shell": {"open": True}}}, indent=2))
                before = tree_hashes(self.root)
            cmd = [C.CLI, "tauri-typegen", "init", "-p", self.state.proj_cfg or ("./" + self.state.proj_rel),
                   "-g", self.state.out_cfg or ("./" + self.out_rel),
                   "-v", "none" if self.state.attrs["mode"] else "zod"]
        else:
            raise ValueError(driver)
        st = ["strace", "-f", "-qq", "-o", strace_out,
              "-e", "trace=openat,open,creat,unlink,unlinkat,rename,renameat,renameat2,mkdir,mkdirat,rmdir,truncate"]
        injected_kill = False
        ordered = True
        if fault:
            kind, fkey = fault
            target = os.path.join(self.root, self.out_rel, FILE_OF[fkey])
            ordered = False
            if kind == "failopen":
                inj = "inject=openat:error=EACCES"
                tr = "trace=openat"
            elif kind == "failwrite":
                inj = "inject=write:error=ENOSPC"
                tr = "trace=openat,write"
            else:
                inj = "inject=write:signal=KILL"
                tr = "trace=openat,write"
                injected_kill = True
            # -P matches the literal path argument when the file does not exist yet: give the
            # spellings the tool uses (output_path + "/" + name, relative to the sandbox root) too
            rel1 = "./" + self.out_rel + "/" + FILE_OF[fkey]
            rel2 = self.out_rel + "/" + FILE_OF[fkey]
            st = ["strace", "-f", "-qq", "-o", strace_out, "-P", target, "-P", rel1, "-P", rel2, "-e", tr, "-e", inj]
        before_meta = out_meta(os.path.join(self.root, self.out_rel))
        self.events.append({"event": "RunStart", "driver": driver, "forced": bool(forced), "flag": bool(flag), "cfg": bool(cfg),
                            "fault": "%s@%s" % fault if fault else "none"})
        env = dict(os.environ)
        env.pop("RUST_BACKTRACE", None)
        try:
            p = subprocess.run(st + cmd, cwd=self.root, stdout=subprocess.PIPE, stderr=subprocess.PIPE, timeout=120, env=env)
            rc, out, err = p.returncode, p.stdout.decode("utf8", "replace"), p.stderr.decode("utf8", "replace")
        except subprocess.TimeoutExpired:
            rc, out, err = -9, "", "TIMEOUT"
        if rc == 0:
            status = "ok"
        elif rc == 1:
            status = "err"
        elif rc == 101 or "panicked at" in err:
            status = "panic"
        elif rc < 0 or rc >= 128:
            status = "killed"
        else:
            status = "err"
        up = "bindings are up to date" in out
        outdir = os.path.normpath(os.path.join(self.root, self.out_rel))
        cfgpath = os.path.normpath(os.path.join(self.root, self.state.proj_rel, "tauri.conf.json")) if driver == "init" \
            else os.path.normpath(os.path.join(self.root, "typegen.json"))
        sysevs = parse_strace(strace_out, self.root)
        if fault and fault[0] in ("failwrite", "crash") and os.path.exists(strace_out):
            # with -P only the target's descriptors are traced: a failing / killed write() belongs to it
            txt = open(strace_out, errors="replace").read()
            if re.search(r"write\(\d+,.*\)\s+=\s+(-1|\?)", txt) or "killed by SIGKILL" in txt:
                sysevs.append({"op": "write", "path": os.path.normpath(target), "ok": False, "errno": "ENOSPC"})
        seen_fault_write = set()
        for e in sysevs:
            if not e["path"].startswith(os.path.normpath(self.root)) and not e["path"].startswith("/tmp/nonexistent"):
                # mutations outside the sandbox (e.g. /dev/null, /proc) - report only real files
                if e["path"].startswith(("/dev/", "/proc/", "/sys/")):
                    continue
            rel = os.path.relpath(e["path"], self.root)
            if e["path"] == outdir or outdir.startswith(e["path"] + os.sep):
                where = "outdir"
            elif os.path.dirname(e["path"]) == outdir:
                where = "out"
            elif e["path"] == cfgpath:
                where = "config"
            else:
                where = "elsewhere"
            name = os.path.basename(e["path"])
            if fault and e["op"] == "write":
                # with -P every write() on the fd is logged; keep one event per path and outcome
                k = (e["path"], e["ok"])
                if k in seen_fault_write:
                    continue
                seen_fault_write.add(k)
            self.events.append({"event": "Sys", "op": e["op"], "path": rel, "name": name, "ncs": chars(name),
                                "where": where, "ok": bool(e["ok"]), "ordered": ordered})
        if fault:
            # other files changed by this run (order unknown -> ordered=false)
            after = tree_hashes(self.root)
            for rel in sorted(set(after) | set(before)):
                if after.get(rel) != before.get(rel) and not rel.endswith("/"):
                    ap = os.path.normpath(os.path.join(self.root, rel))
                    if os.path.dirname(ap) == outdir and rel in after:
                        name = os.path.basename(rel)
                        if (ap, True) in seen_fault_write:
                            continue
                        self.events.append({"event": "Sys", "op": "write", "path": rel, "name": name, "ncs": chars(name),
                                            "where": "out", "ok": True, "ordered": False})
        # events of THIS run = everything after the last RunStart
        idx = max(i for i, e in enumerate(self.events) if e["event"] == "RunStart")
        wrote_nothing = not any(e["event"] == "Sys" and e["op"] == "write" and e["where"] == "out" and e["ok"]
                                and e["name"] != ".write_test" for e in self.events[idx:])
        self.events.append({"event": "RunEnd", "status": status, "upToDate": bool(up), "exit": rc,
                            "injectedKill": injected_kill, "wroteNothing": bool(wrote_nothing)})
        snap = self.snapshot(before, probe_skip=probe_skip or status != "ok", driver=driver)
        after_meta = out_meta(os.path.join(self.root, self.out_rel))
        snap["outChanged"] = sorted(n for n in set(before_meta) | set(after_meta) if before_meta.get(n) != after_meta.get(n))
        self.events.append(snap)
        if os.path.exists(strace_out):
            os.remove(strace_out)
        return {"status": status, "upToDate": up or (status == "ok" and wrote_nothing and self.state.has_cmds),
                "out": out, "err": err, "snapshot": snap}

    def snapshot(self, before, probe_skip=False, driver="cli"):
        variants = self.oracle()
        outdir = os.path.join(self.root, self.out_rel)
        have = {n: runner.strip_timestamp(t) for n, t in runner.read_outputs(outdir).items()}
        expected = sorted(n for n in variants[0] if n != ".typecache")
        files = {}
        for n in expected:
            if n not in have:
                files[n] = "absent"
            elif any(v.get(n) == have[n] for v in variants):
                files[n] = "current"
            else:
                files[n] = "stale"
        if not files:
            files = {"_none": "current"}
        after = tree_hashes(self.root)
        reserved_out = lambda rel: os.path.dirname(os.path.normpath(rel)) == os.path.normpath(self.out_rel)
        changed = []
        for rel in sorted(set(before) | set(after)):
            if before.get(rel) == after.get(rel):
                continue
            if rel.rstrip("/") == self.out_rel or self.out_rel.startswith(rel.rstrip("/") + "/"):
                continue
            if reserved_out(rel) and not rel.endswith("/"):
                continue        # files directly in the output directory are judged by the Sys events
            if driver == "init" and os.path.normpath(rel) == os.path.normpath(os.path.join(self.state.proj_rel, "tauri.conf.json")):
                continue        # init may rewrite the configuration file it was pointed at
            changed.append(rel)
        would = "unknown"
        if probe_skip:
            would = self.would_skip(driver)
        return {"event": "Snapshot", "files": files, "expected": expected, "foreignChanged": changed,
                "wouldSkip": would, "cachePresent": ".typecache" in have}

    def would_skip(self, driver):
        tmp = self.root + ".probe"
        shutil.rmtree(tmp, ignore_errors=True)
        shutil.copytree(self.root, tmp, symlinks=True)
        try:
            r = runner.cli(["generate", "-c", "typegen.json"], tmp)
            if r.rc != 0:
                return "no"
            return "yes" if r.up_to_date else "no"
        finally:
            shutil.rmtree(tmp, ignore_errors=True)


def replay_history(root, hist, has_events, viz, case, driver_override=None, nfiles=2, setup=None, rich_foreign=False, has_cmds=True, symlink=False, qualmaps=False):
    """hist: list of TLC tuples (["edit",c] / ["events",b] / ["commands",b] / ["lose",f] / ["place","probe"] /
    ["run",driver,forced,faultkind,at] / ["end",status,skipped]).  Returns (events, predicted_vs_real list)."""
    # has_events / viz are the FINAL values TLC printed; a toggle entry carries the value AFTER the
    # toggle, so the initial value is the negation of the first toggle's value (if any)
    truthy = (True, "TRUE")
    for h in hist:
        if h[0] == "events":
            has_events = h[1] not in truthy
            break
    for h in hist:
        if h[0] == "viz":
            viz = h[1] not in truthy
            break
    for h in hist:
        if h[0] == "commands":
            has_cmds = h[1] not in truthy
            break
    st = State(has_events=has_events, viz=viz)
    st.has_cmds = bool(has_cmds)
    st.symlink = bool(symlink)
    st.qualmaps = bool(qualmaps)
    # the emit with a payload struct of its own exists only in histories in which events neither appear nor disappear:
    # both steps have to change the events and nothing else
    st.rich_events = bool(has_events) and not any(h[0] == "events" for h in hist)
    st.nfiles = nfiles
    if setup:
        setup(st, root)
    sb = Sandbox(root, st, rich_foreign=rich_foreign)
    sb.events.append({"event": "Reset", "case": case})
    cmp = []
    pending = None
    for h in hist:
        k = h[0]
        if k == "edit":
            sb.env_edit(h[1])
        elif k == "events":
            sb.env_events(h[1] in (True, "TRUE"))
        elif k == "commands":
            sb.env_commands(h[1] in (True, "TRUE"))
        elif k == "viz":
            sb.env_viz(h[1] in (True, "TRUE"))
        elif k == "lose":
            sb.env_lose(h[1])
        elif k == "place":
            sb.env_place(FILE_OF[h[1]])
        elif k == "corrupt":
            sb.env_corrupt(h[1])
        elif k == "tamper":
            sb.env_tamper(h[1])
        elif k == "run":
            driver = driver_override or h[1]
            flag = h[2] in truthy
            cfg = h[3] in truthy
            fault = None if h[4] == "none" else (h[4], h[5])
            pending = sb.run(driver=driver, flag=flag, cfg=cfg, fault=fault)
        elif k == "end":
            if pending is not None:
                cmp.append({"predicted": [h[1], h[2] in (True, "TRUE")], "real": [pending["status"], pending["upToDate"]]})
                pending = None
    evs = sb.events
    shutil.rmtree(root, ignore_errors=True)
    return evs, cmp
