INIT Init
NEXT Next
CONSTANT Mode = "companions"
INVARIANT Emit
CHECK_DEADLOCK FALSE
