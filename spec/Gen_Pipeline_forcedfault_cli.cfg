SPECIFICATION FaultSpec
CONSTANTS
 Classes <- FaultClasses
 HashedClasses <- FaultClasses
 VizHashed = TRUE
 FlagOverwritesConfig = FALSE
 EventsHashed = TRUE
 NOrders = 1
 KeyDependsOnOrder = FALSE
 OutputDependsOnOrder = FALSE
 CacheLooksAtFiles = TRUE
 CacheSavedLast = TRUE
 CacheDroppedFirst = TRUE
 Drivers <- CliOnly
 BuildCleansOnEmpty = TRUE
 BuildProbes = FALSE
 MaxEnv = 1
 MaxRuns = 3
 MaxFaults = 1
CONSTRAINT ForcedFaultConstraint
INVARIANT EmitHist
CHECK_DEADLOCK FALSE
