"""A strict recursive-descent parser for the TypeScript subset a binding generator can emit.

It produces a *faithful* JSON AST (no interpretation); all judgement about what the AST
means is made by the TLA+ operators in spec/TypeLang.tla, Names.tla, Output.tla.
Every node is an object with a "k" field (TLC cannot compare strings with records).

The parser is deliberately strict about what property C01 names: identifier syntax,
property keys, string-literal escapes, balanced brackets, stray characters ('#', '::').
"""
import re

KEYWORD_TYPES = {"string", "number", "boolean", "null", "undefined", "void", "unknown", "any",
                 "never", "object", "bigint", "symbol"}

# ECMAScript reserved words (cannot be used as binding identifiers) + strict-mode/module extras
RESERVED = {
    "break", "case", "catch", "class", "const", "continue", "debugger", "default", "delete", "do",
    "else", "enum", "export", "extends", "false", "finally", "for", "function", "if", "import", "in",
    "instanceof", "new", "null", "return", "super", "switch", "this", "throw", "true", "try",
    "typeof", "var", "void", "while", "with", "yield", "let", "static", "implements", "interface",
    "package", "private", "protected", "public", "await", "arguments", "eval",
}

PUNCT = ["...", "=>", "?.", "??", "===", "!==", "==", "!=", "&&", "||", "<=", ">=", "++", "--",
         "{", "}", "(", ")", "[", "]", ";", ",", "<", ">", ":", ".", "=", "+", "-", "*", "/", "%",
         "&", "|", "^", "!", "~", "?"]


class ParseError(Exception):
    def __init__(self, msg, pos=0):
        Exception.__init__(self, msg)
        self.msg = msg
        self.pos = pos


class Tok:
    __slots__ = ("k", "v", "pos", "raw")

    def __init__(self, k, v, pos, raw=None):
        self.k = k      # id | str | num | p | tmpl | eof
        self.v = v
        self.pos = pos
        self.raw = raw

    def __repr__(self):
        return "%s:%r" % (self.k, self.v)


def is_id_start(ch):
    return ch == "_" or ch == "$" or ch.isalpha()


def is_id_part(ch):
    return ch == "_" or ch == "$" or ch.isalnum()


def is_identifier_name(s):
    return len(s) > 0 and is_id_start(s[0]) and all(is_id_part(c) for c in s[1:])


def decode_string_body(body, quote, pos):
    """Decode the inside of a JS string literal; raises ParseError for illegal escapes/newlines."""
    out = []
    i = 0
    n = len(body)
    while i < n:
        ch = body[i]
        if ch == "\n" or ch == "\r":
            raise ParseError("unescaped line terminator in string literal", pos + i)
        if ch != "\\":
            out.append(ch)
            i += 1
            continue
        i += 1
        if i >= n:
            raise ParseError("dangling backslash in string literal", pos + i)
        e = body[i]
        i += 1
        simple = {"n": "\n", "t": "\t", "r": "\r", "b": "\b", "f": "\f", "v": "\v", "0": "\0",
                  "'": "'", '"': '"', "\\": "\\", "`": "`", "\n": ""}
        if e in simple:
            if e == "0" and i < n and body[i].isdigit():
                raise ParseError("octal escape in string literal", pos + i)
            out.append(simple[e])
        elif e == "x":
            h = body[i:i + 2]
            if len(h) != 2 or not re.fullmatch(r"[0-9a-fA-F]{2}", h):
                raise ParseError("bad \\x escape", pos + i)
            out.append(chr(int(h, 16)))
            i += 2
        elif e == "u":
            if i < n and body[i] == "{":
                j = body.find("}", i)
                if j < 0 or not re.fullmatch(r"[0-9a-fA-F]{1,6}", body[i + 1:j]):
                    raise ParseError("bad \\u{} escape", pos + i)
                out.append(chr(int(body[i + 1:j], 16)))
                i = j + 1
            else:
                h = body[i:i + 4]
                if len(h) != 4 or not re.fullmatch(r"[0-9a-fA-F]{4}", h):
                    raise ParseError("bad \\u escape", pos + i)
                out.append(chr(int(h, 16)))
                i += 4
        elif e.isdigit():
            raise ParseError("octal escape in string literal", pos + i)
        else:
            out.append(e)   # identity escape (legal in sloppy & module code for non-special chars)
    return "".join(out)


def tokenize(src):
    toks = []
    i = 0
    n = len(src)
    while i < n:
        ch = src[i]
        if ch in " \t\r\n﻿":
            i += 1
            continue
        if src.startswith("//", i):
            j = src.find("\n", i)
            i = n if j < 0 else j
            continue
        if src.startswith("/*", i):
            j = src.find("*/", i + 2)
            if j < 0:
                raise ParseError("unterminated comment", i)
            i = j + 2
            continue
        if is_id_start(ch):
            j = i + 1
            while j < n and is_id_part(src[j]):
                j += 1
            toks.append(Tok("id", src[i:j], i))
            i = j
            continue
        if ch.isdigit() or (ch == "." and i + 1 < n and src[i + 1].isdigit()):
            m = re.match(r"(0[xX][0-9a-fA-F]+|0[bB][01]+|0[oO][0-7]+|(\d+\.?\d*|\.\d+)([eE][+-]?\d+)?)n?", src[i:])
            if not m:
                raise ParseError("bad number", i)
            j = i + len(m.group(0))
            if j < n and is_id_start(src[j]):
                raise ParseError("identifier starts immediately after numeric literal", j)
            toks.append(Tok("num", m.group(0), i))
            i = j
            continue
        if ch == '"' or ch == "'":
            j = i + 1
            while True:
                if j >= n:
                    raise ParseError("unterminated string literal", i)
                if src[j] == "\\":
                    j += 2
                    continue
                if src[j] == ch:
                    break
                if src[j] == "\n":
                    raise ParseError("unterminated string literal (newline)", i)
                j += 1
            body = src[i + 1:j]
            toks.append(Tok("str", decode_string_body(body, ch, i + 1), i, raw=src[i:j + 1]))
            i = j + 1
            continue
        if ch == "`":
            j = i + 1
            depth = 0
            while True:
                if j >= n:
                    raise ParseError("unterminated template literal", i)
                if src[j] == "\\":
                    j += 2
                    continue
                if src.startswith("${", j):
                    depth += 1
                    j += 2
                    continue
                if src[j] == "}" and depth > 0:
                    depth -= 1
                    j += 1
                    continue
                if src[j] == "`" and depth == 0:
                    break
                j += 1
            toks.append(Tok("tmpl", src[i + 1:j], i))
            i = j + 1
            continue
        for p in PUNCT:
            if src.startswith(p, i):
                toks.append(Tok("p", p, i))
                i += len(p)
                break
        else:
            raise ParseError("illegal character %r" % ch, i)
    toks.append(Tok("eof", "", n))
    return toks


def chars(s):
    """A string as a list of ASCII-safe character tokens (for the TLA+ side)."""
    out = []
    for c in s:
        o = ord(c)
        if 32 <= o < 127:
            out.append(c)
        else:
            out.append("u%04X" % o)
    return out


def ascii_safe(s):
    return "".join(c if 32 <= ord(c) < 127 else "\\u%04X" % ord(c) for c in s)


class Parser:
    def __init__(self, toks):
        self.t = toks
        self.i = 0

    # -- token helpers
    def peek(self, o=0):
        j = min(self.i + o, len(self.t) - 1)
        return self.t[j]

    def at_p(self, v, o=0):
        t = self.peek(o)
        return t.k == "p" and t.v == v

    def at_id(self, v=None, o=0):
        t = self.peek(o)
        return t.k == "id" and (v is None or t.v == v)

    def next(self):
        t = self.t[self.i]
        if t.k != "eof":
            self.i += 1
        return t

    def expect_p(self, v):
        t = self.next()
        if t.k != "p" or t.v != v:
            raise ParseError("expected %r but found %r" % (v, t.v), t.pos)
        return t

    def expect_id(self, v=None):
        t = self.next()
        if t.k != "id" or (v is not None and t.v != v):
            raise ParseError("expected identifier%s but found %r" % ((" " + v) if v else "", t.v), t.pos)
        return t

    def binding_name(self):
        t = self.expect_id()
        if t.v in RESERVED:
            raise ParseError("reserved word %r used as a binding name" % t.v, t.pos)
        return t.v

    # -- types
    def parse_type(self):
        if self.at_p("(") and self._is_function_type():
            return self._function_type()
        if self.at_id("new") and self.at_p("(", 1):
            self.next()
            return self._function_type()
        return self._union()

    def _is_function_type(self):
        depth = 0
        j = self.i
        while True:
            t = self.t[j]
            if t.k == "eof":
                return False
            if t.k == "p" and t.v in "([{":
                depth += 1
            elif t.k == "p" and t.v in ")]}":
                depth -= 1
                if depth == 0:
                    nt = self.t[j + 1]
                    return nt.k == "p" and nt.v == "=>"
            j += 1

    def _function_type(self):
        self.expect_p("(")
        ps = []
        while not self.at_p(")"):
            if self.at_p("..."):
                self.next()
            name = self.binding_name()
            opt = False
            if self.at_p("?"):
                self.next()
                opt = True
            ty = {"k": "kw", "n": "any"}
            if self.at_p(":"):
                self.next()
                ty = self.parse_type()
            ps.append({"k": "param", "n": name, "opt": opt, "t": ty})
            if self.at_p(","):
                self.next()
            else:
                break
        self.expect_p(")")
        self.expect_p("=>")
        r = self.parse_type()
        return {"k": "fn", "ps": ps, "r": r}

    def _union(self):
        if self.at_p("|"):
            self.next()
        ts = [self._intersection()]
        while self.at_p("|"):
            self.next()
            ts.append(self._intersection())
        return ts[0] if len(ts) == 1 else {"k": "union", "ts": ts}

    def _intersection(self):
        if self.at_p("&"):
            self.next()
        ts = [self._postfix()]
        while self.at_p("&"):
            self.next()
            ts.append(self._postfix())
        return ts[0] if len(ts) == 1 else {"k": "inter", "ts": ts}

    def _postfix(self):
        t = self._primary_type()
        while self.at_p("["):
            if self.at_p("]", 1):
                self.next()
                self.next()
                t = {"k": "arr", "e": t}
            else:
                self.next()
                idx = self.parse_type()
                self.expect_p("]")
                t = {"k": "indexed", "o": t, "i": idx}
        return t

    def _primary_type(self):
        t = self.peek()
        if t.k == "p" and t.v == "(":
            self.next()
            inner = self.parse_type()
            self.expect_p(")")
            return inner
        if t.k == "p" and t.v == "[":
            self.next()
            ts = []
            while not self.at_p("]"):
                if self.at_p("..."):
                    self.next()
                # labelled tuple element  name: T  /  name?: T
                if self.peek().k == "id" and (self.at_p(":", 1) or (self.at_p("?", 1) and self.at_p(":", 2))):
                    self.next()
                    if self.at_p("?"):
                        self.next()
                    self.next()
                ts.append(self.parse_type())
                if self.at_p("?"):
                    self.next()
                if self.at_p(","):
                    self.next()
                else:
                    break
            self.expect_p("]")
            return {"k": "tuple", "ts": ts}
        if t.k == "p" and t.v == "{":
            return self._object_type()
        if t.k == "str":
            self.next()
            return {"k": "lit", "v": ascii_safe(t.v), "cs": chars(t.v)}
        if t.k == "num":
            self.next()
            return {"k": "numlit", "v": t.v}
        if t.k == "p" and t.v == "-" and self.peek(1).k == "num":
            self.next()
            n = self.next()
            return {"k": "numlit", "v": "-" + n.v}
        if t.k == "id":
            if t.v in ("typeof",):
                self.next()
                name = [self.expect_id().v]
                while self.at_p("."):
                    self.next()
                    name.append(self.expect_id().v)
                return {"k": "typeof", "q": ".".join(name[:-1]), "n": name[-1]}
            if t.v in ("keyof", "readonly", "unique", "infer"):
                self.next()
                inner = self._postfix()
                return {"k": "op", "op": t.v, "t": inner}
            if t.v in ("true", "false"):
                self.next()
                return {"k": "boollit", "v": t.v}
            if t.v in KEYWORD_TYPES and not self.at_p(".", 1):
                self.next()
                return {"k": "kw", "n": t.v}
            if t.v in RESERVED and t.v not in ("this",):
                raise ParseError("reserved word %r in type position" % t.v, t.pos)
            self.next()
            name = [t.v]
            while self.at_p("."):
                self.next()
                name.append(self.expect_id().v)
            args = []
            if self.at_p("<"):
                self.next()
                while True:
                    args.append(self.parse_type())
                    if self.at_p(","):
                        self.next()
                        continue
                    break
                self.expect_p(">")
            return {"k": "ref", "q": ".".join(name[:-1]), "n": name[-1], "args": args}
        raise ParseError("unexpected token %r in type" % (t.v,), t.pos)

    def _property_key(self):
        """-> (name, quoted, chars)"""
        t = self.next()
        if t.k == "id":
            return t.v, False
        if t.k == "str":
            return t.v, True
        if t.k == "num":
            return t.v, False
        raise ParseError("expected property key but found %r" % (t.v,), t.pos)

    def _object_type(self):
        self.expect_p("{")
        ms = []
        idx = []
        while not self.at_p("}"):
            if self.at_id("readonly") and not (self.at_p(":", 1) or self.at_p("?", 1)):
                self.next()
            if self.at_p("["):
                # index signature [key: K]: V   (or computed key - not supported)
                self.next()
                self.binding_name()
                self.expect_p(":")
                kt = self.parse_type()
                self.expect_p("]")
                self.expect_p(":")
                vt = self.parse_type()
                idx.append({"k": "index", "kt": kt, "vt": vt})
            else:
                name, quoted = self._property_key()
                opt = False
                if self.at_p("?"):
                    self.next()
                    opt = True
                if self.at_p("("):
                    # method signature
                    fn = self._function_like_sig()
                    ms.append({"k": "member", "key": ascii_safe(name), "kcs": chars(name), "quoted": quoted, "opt": opt, "t": fn})
                else:
                    self.expect_p(":")
                    ty = self.parse_type()
                    ms.append({"k": "member", "key": ascii_safe(name), "kcs": chars(name), "quoted": quoted, "opt": opt, "t": ty})
            if self.at_p(";") or self.at_p(","):
                self.next()
            elif not self.at_p("}"):
                # members must be separated by ';' ',' or a newline; we require a newline
                prev = self.t[self.i - 1]
                cur = self.peek()
                if "\n" not in self._src[prev.pos:cur.pos]:
                    raise ParseError("missing separator between members", cur.pos)
        self.expect_p("}")
        return {"k": "obj", "ms": ms, "idx": idx}

    def _function_like_sig(self):
        self.expect_p("(")
        depth = 1
        while depth:
            t = self.next()
            if t.k == "eof":
                raise ParseError("unbalanced parenthesis", t.pos)
            if t.k == "p" and t.v == "(":
                depth += 1
            if t.k == "p" and t.v == ")":
                depth -= 1
        r = {"k": "kw", "n": "any"}
        if self.at_p(":"):
            self.next()
            r = self.parse_type()
        return {"k": "fn", "ps": [], "r": r}

    # -- expressions (as far as Zod chains and invoke/listen calls need)
    def parse_expr(self):
        return self._assign()

    def _is_arrow(self):
        if self.at_id() and self.at_p("=>", 1):
            return True
        if self.at_id("async") and (self.at_p("(", 1) or self.peek(1).k == "id"):
            return True
        if not self.at_p("("):
            return False
        depth = 0
        j = self.i
        while True:
            t = self.t[j]
            if t.k == "eof":
                return False
            if t.k == "p" and t.v in "([{":
                depth += 1
            elif t.k == "p" and t.v in ")]}":
                depth -= 1
                if depth == 0:
                    nt = self.t[j + 1]
                    if nt.k == "p" and nt.v == "=>":
                        return True
                    if nt.k == "p" and nt.v == ":":
                        # (a): T => ...   return-type annotated arrow: look for => before a ',' ';' at depth 0
                        k = j + 2
                        d2 = 0
                        while self.t[k].k != "eof":
                            tk = self.t[k]
                            if tk.k == "p" and tk.v in "([{<":
                                d2 += 1
                            elif tk.k == "p" and tk.v in ")]}>":
                                if d2 == 0:
                                    return False
                                d2 -= 1
                            elif tk.k == "p" and tk.v == "=>" and d2 == 0:
                                return True
                            elif tk.k == "p" and tk.v in (",", ";") and d2 == 0:
                                return False
                            k += 1
                    return False
            j += 1

    def _arrow(self):
        is_async = False
        if self.at_id("async"):
            self.next()
            is_async = True
        ps = []
        if self.at_p("("):
            self.next()
            while not self.at_p(")"):
                if self.at_p("..."):
                    self.next()
                if self.at_p("{") or self.at_p("["):
                    self._skip_balanced()
                    ps.append("_destructured")
                else:
                    ps.append(self.binding_name())
                if self.at_p("?"):
                    self.next()
                if self.at_p(":"):
                    self.next()
                    self.parse_type()
                if self.at_p("="):
                    self.next()
                    self._assign()
                if self.at_p(","):
                    self.next()
                else:
                    break
            self.expect_p(")")
            if self.at_p(":"):
                self.next()
                self.parse_type()
        else:
            ps.append(self.binding_name())
        self.expect_p("=>")
        if self.at_p("{"):
            body_toks = self._skip_balanced()
            calls = find_calls(body_toks, self._src)
            return {"k": "arrow", "ps": ps, "async": is_async, "body": {"k": "block", "calls": calls}}
        body = self._assign()
        return {"k": "arrow", "ps": ps, "async": is_async, "body": body}

    def _skip_balanced(self):
        """Consume a balanced (...) [...] or {...} group; returns the tokens inside (exclusive)."""
        open_t = self.next()
        pairs = {"(": ")", "[": "]", "{": "}"}
        if open_t.k != "p" or open_t.v not in pairs:
            raise ParseError("expected opening bracket", open_t.pos)
        stack = [pairs[open_t.v]]
        start = self.i
        while stack:
            t = self.next()
            if t.k == "eof":
                raise ParseError("unbalanced %r" % open_t.v, open_t.pos)
            if t.k == "p" and t.v in pairs:
                stack.append(pairs[t.v])
            elif t.k == "p" and t.v in (")", "]", "}"):
                if t.v != stack[-1]:
                    raise ParseError("mismatched bracket %r" % t.v, t.pos)
                stack.pop()
        return self.t[start:self.i - 1]

    def _assign(self):
        if self._is_arrow():
            return self._arrow()
        left = self._ternary()
        if self.at_p("="):
            self.next()
            right = self._assign()
            return {"k": "assign", "l": left, "r": right}
        return left

    def _ternary(self):
        c = self._binary(0)
        if self.at_p("?"):
            self.next()
            a = self._assign()
            self.expect_p(":")
            b = self._assign()
            return {"k": "cond", "c": c, "a": a, "b": b}
        return c

    BIN = [["??"], ["||"], ["&&"], ["|"], ["^"], ["&"], ["===", "!==", "==", "!="],
           ["<", ">", "<=", ">=", "instanceof", "in"], ["+", "-"], ["*", "/", "%"]]

    def _binary(self, lvl):
        if lvl >= len(self.BIN):
            return self._unary()
        left = self._binary(lvl + 1)
        while True:
            t = self.peek()
            if (t.k == "p" and t.v in self.BIN[lvl]) or (t.k == "id" and t.v in self.BIN[lvl]):
                self.next()
                right = self._binary(lvl + 1)
                left = {"k": "bin", "op": t.v, "l": left, "r": right}
            else:
                return left

    def _unary(self):
        t = self.peek()
        if t.k == "p" and t.v in ("!", "-", "+", "~"):
            self.next()
            e = self._unary()
            if t.v == "-" and e.get("k") == "num":
                return {"k": "num", "v": "-" + e["v"]}
            return {"k": "unary", "op": t.v, "e": e}
        if t.k == "id" and t.v in ("typeof", "void", "await", "delete"):
            self.next()
            return {"k": "unary", "op": t.v, "e": self._unary()}
        if t.k == "id" and t.v == "new":
            self.next()
            e = self._postfix_expr(self._primary_expr(), no_call=True)
            args = []
            if self.at_p("("):
                args = self._args()
            return self._postfix_expr({"k": "new", "f": e, "as": args})
        return self._postfix_expr(self._primary_expr())

    def _args(self):
        self.expect_p("(")
        args = []
        while not self.at_p(")"):
            if self.at_p("..."):
                self.next()
                args.append({"k": "spread", "e": self._assign()})
            else:
                args.append(self._assign())
            if self.at_p(","):
                self.next()
            else:
                break
        self.expect_p(")")
        return args

    def _try_type_args(self):
        """At '<': try to parse <T,...> followed by '('; returns list or None (no consumption)."""
        save = self.i
        try:
            self.expect_p("<")
            targs = []
            while True:
                targs.append(self.parse_type())
                if self.at_p(","):
                    self.next()
                    continue
                break
            self.expect_p(">")
            if not self.at_p("("):
                raise ParseError("not a generic call", self.peek().pos)
            return targs
        except ParseError:
            self.i = save
            return None

    def _postfix_expr(self, e, no_call=False):
        while True:
            if self.at_p(".") or self.at_p("?."):
                opt = self.peek().v == "?."
                self.next()
                if opt and self.at_p("("):
                    e = {"k": "call", "f": e, "targs": [], "as": self._args(), "opt": True}
                    continue
                if opt and self.at_p("["):
                    self.next()
                    ix = self.parse_expr()
                    self.expect_p("]")
                    e = {"k": "index", "o": e, "i": ix}
                    continue
                name = self.expect_id().v
                e = {"k": "member", "o": e, "p": name}
            elif self.at_p("(") and not no_call:
                e = {"k": "call", "f": e, "targs": [], "as": self._args(), "opt": False}
            elif self.at_p("<") and not no_call:
                targs = self._try_type_args()
                if targs is None:
                    return e
                e = {"k": "call", "f": e, "targs": targs, "as": self._args(), "opt": False}
            elif self.at_p("["):
                self.next()
                ix = self.parse_expr()
                self.expect_p("]")
                e = {"k": "index", "o": e, "i": ix}
            elif self.at_p("!") and not self.at_p("=", 1):
                self.next()
            elif self.at_id("as"):
                self.next()
                self.parse_type()
            else:
                return e

    def _primary_expr(self):
        t = self.next()
        if t.k == "id":
            if t.v in ("true", "false"):
                return {"k": "bool", "v": t.v}
            if t.v in ("null", "undefined", "this"):
                return {"k": "id", "n": t.v}
            if t.v == "function":
                if self.at_id():
                    self.next()
                self._skip_balanced()
                if self.at_p(":"):
                    self.next()
                    self.parse_type()
                self._skip_balanced()
                return {"k": "funcexpr"}
            if t.v in RESERVED:
                raise ParseError("reserved word %r in expression" % t.v, t.pos)
            return {"k": "id", "n": t.v}
        if t.k == "str":
            return {"k": "str", "v": ascii_safe(t.v), "cs": chars(t.v), "raw": ascii_safe(t.raw)}
        if t.k == "tmpl":
            return {"k": "tmpl", "v": ascii_safe(t.v)}
        if t.k == "num":
            return {"k": "num", "v": t.v}
        if t.k == "p" and t.v == "(":
            e = self.parse_expr()
            while self.at_p(","):
                self.next()
                e = self.parse_expr()
            self.expect_p(")")
            return e
        if t.k == "p" and t.v == "[":
            es = []
            while not self.at_p("]"):
                if self.at_p("..."):
                    self.next()
                    es.append({"k": "spread", "e": self._assign()})
                else:
                    es.append(self._assign())
                if self.at_p(","):
                    self.next()
                else:
                    break
            self.expect_p("]")
            return {"k": "arrlit", "es": es}
        if t.k == "p" and t.v == "{":
            ps = []
            while not self.at_p("}"):
                if self.at_p("..."):
                    self.next()
                    ps.append({"k": "spread", "e": self._assign()})
                else:
                    name, quoted = self._property_key()
                    if self.at_p(":"):
                        self.next()
                        v = self._assign()
                    elif self.at_p("("):
                        self._skip_balanced()
                        self._skip_balanced()
                        v = {"k": "funcexpr"}
                    else:
                        if quoted or not is_identifier_name(name) or name in RESERVED:
                            raise ParseError("bad shorthand property %r" % name, t.pos)
                        v = {"k": "id", "n": name}
                    ps.append({"k": "prop", "key": ascii_safe(name), "kcs": chars(name), "quoted": quoted, "v": v})
                if self.at_p(","):
                    self.next()
                else:
                    break
            self.expect_p("}")
            return {"k": "objlit", "ps": ps}
        raise ParseError("unexpected token %r in expression" % (t.v,), t.pos)


def find_calls(body_toks, src):
    """Inside a skipped statement body: every call `name(`/`name<..>(` to invoke/listen is parsed."""
    calls = []
    toks = list(body_toks) + [Tok("eof", "", body_toks[-1].pos + 1 if body_toks else 0)]
    for j, t in enumerate(toks):
        if t.k == "id" and t.v in ("invoke", "listen"):
            prev = toks[j - 1] if j > 0 else None
            if prev is not None and prev.k == "p" and prev.v in (".", "?."):
                continue
            p = Parser(toks)
            p._src = src
            p.i = j
            try:
                e = p._postfix_expr(p._primary_expr())
            except ParseError as ex:
                calls.append({"k": "badcall", "f": t.v, "err": ascii_safe(ex.msg)})
                continue
            # strip trailing member/call chain down to the call on invoke/listen itself
            c = e
            while c.get("k") in ("member", "call", "index") and not (c.get("k") == "call" and c["f"].get("k") == "id"):
                c = c["o"] if c["k"] in ("member", "index") else c["f"]
            if c.get("k") == "call":
                calls.append(c)
    return calls


def body_member_refs(body_toks):
    """`a.b` pairs inside a statement body whose `a` is a plain identifier (not itself a member):
    candidates for references through a namespace import (types.FooSchema)."""
    out = []
    seen = set()
    for j, t in enumerate(body_toks[:-2]):
        if t.k != "id":
            continue
        prev = body_toks[j - 1] if j > 0 else None
        if prev is not None and prev.k == "p" and prev.v in (".", "?."):
            continue
        n1, n2 = body_toks[j + 1], body_toks[j + 2]
        if n1.k == "p" and n1.v == "." and n2.k == "id":
            key = (t.v, n2.v)
            if key not in seen:
                seen.add(key)
                out.append([t.v, n2.v])
    return out


def body_locals(body_toks):
    """names bound inside a statement body: const/let/var declarations, catch parameters, arrow parameters"""
    out = set()
    n = len(body_toks)
    for j, t in enumerate(body_toks):
        if t.k == "id" and t.v in ("const", "let", "var") and j + 1 < n and body_toks[j + 1].k == "id":
            out.add(body_toks[j + 1].v)
        if t.k == "id" and t.v == "catch" and j + 2 < n and body_toks[j + 1].k == "p" and body_toks[j + 1].v == "(" and body_toks[j + 2].k == "id":
            out.add(body_toks[j + 2].v)
        if t.k == "p" and t.v == "=>":
            # (a, b) =>   or   a =>
            k = j - 1
            if k >= 0 and body_toks[k].k == "id":
                out.add(body_toks[k].v)
            elif k >= 0 and body_toks[k].k == "p" and body_toks[k].v == ")":
                k -= 1
                while k >= 0 and not (body_toks[k].k == "p" and body_toks[k].v == "("):
                    if body_toks[k].k == "id":
                        out.add(body_toks[k].v)
                    k -= 1
    return sorted(out)


def check_balanced(toks):
    pairs = {"(": ")", "[": "]", "{": "}"}
    stack = []
    for t in toks:
        if t.k == "p" and t.v in pairs:
            stack.append((pairs[t.v], t.pos))
        elif t.k == "p" and t.v in (")", "]", "}"):
            if not stack or stack[-1][0] != t.v:
                raise ParseError("unbalanced %r" % t.v, t.pos)
            stack.pop()
    if stack:
        raise ParseError("unclosed bracket", stack[-1][1])


def parse_item(src):
    """Parse ONE top-level module item (import / export ...)."""
    toks = tokenize(src)
    p = Parser(toks)
    p._src = src
    item = _item(p, src)
    while p.at_p(";"):
        p.next()
    if p.peek().k != "eof":
        raise ParseError("trailing tokens after item: %r" % (p.peek().v,), p.peek().pos)
    return item


def _item(p, src):
    if p.at_id("import"):
        p.next()
        names = []
        ns = ""
        default = ""
        if p.at_id("type"):
            p.next()
        if p.peek().k == "str":
            frm = p.next().v
            return {"k": "import", "from": frm, "names": [], "ns": "", "default": ""}
        while True:
            if p.at_p("*"):
                p.next()
                p.expect_id("as")
                ns = p.binding_name()
            elif p.at_p("{"):
                p.next()
                while not p.at_p("}"):
                    if p.at_id("type") and p.peek(1).k == "id" and not p.at_p(",", 1) and not p.at_p("}", 1):
                        p.next()
                    n = p.expect_id().v
                    if p.at_id("as"):
                        p.next()
                        n = p.binding_name()
                    names.append(n)
                    if p.at_p(","):
                        p.next()
                    else:
                        break
                p.expect_p("}")
            else:
                default = p.binding_name()
            if p.at_p(","):
                p.next()
                continue
            break
        p.expect_id("from")
        t = p.next()
        if t.k != "str":
            raise ParseError("expected module specifier", t.pos)
        return {"k": "import", "from": ascii_safe(t.v), "names": names, "ns": ns, "default": default}
    exported = False
    if p.at_id("export"):
        p.next()
        exported = True
        if p.at_p("*"):
            p.next()
            if p.at_id("as"):
                p.next()
                p.binding_name()
            p.expect_id("from")
            t = p.next()
            if t.k != "str":
                raise ParseError("expected module specifier", t.pos)
            return {"k": "exportstar", "from": ascii_safe(t.v)}
        if p.at_p("{"):
            p._skip_balanced()
            if p.at_id("from"):
                p.next()
                p.next()
            return {"k": "exportlist"}
        if p.at_id("default"):
            p.next()
    if p.at_id("declare"):
        p.next()
    if p.at_id("interface"):
        p.next()
        name = p.binding_name()
        tps = _type_params(p)
        ext = []
        if p.at_id("extends"):
            p.next()
            while True:
                ext.append(p._postfix())
                if p.at_p(","):
                    p.next()
                    continue
                break
        body = p._object_type()
        return {"k": "interface", "n": name, "exported": exported, "ext": ext, "body": body, "tps": tps}
    if p.at_id("type"):
        p.next()
        name = p.binding_name()
        tps = _type_params(p)
        p.expect_p("=")
        ty = p.parse_type()
        return {"k": "alias", "n": name, "exported": exported, "t": ty, "tps": tps}
    if p.at_id("const") or p.at_id("let") or p.at_id("var"):
        p.next()
        name = p.binding_name()
        ann = {"k": "none"}
        if p.at_p(":"):
            p.next()
            ann = p.parse_type()
        p.expect_p("=")
        init = p.parse_expr()
        return {"k": "const", "n": name, "exported": exported, "init": init, "ann": ann}
    if p.at_id("async") or p.at_id("function"):
        is_async = False
        if p.at_id("async"):
            p.next()
            is_async = True
        p.expect_id("function")
        if p.at_p("*"):
            p.next()
        name = p.binding_name()
        tps = _type_params(p)
        p.expect_p("(")
        ps = []
        while not p.at_p(")"):
            if p.at_p("..."):
                p.next()
            pn = p.binding_name()
            opt = False
            if p.at_p("?"):
                p.next()
                opt = True
            ty = {"k": "kw", "n": "any"}
            if p.at_p(":"):
                p.next()
                ty = p.parse_type()
            if p.at_p("="):
                p.next()
                p._assign()
            ps.append({"k": "param", "n": pn, "opt": opt, "t": ty})
            if p.at_p(","):
                p.next()
            else:
                break
        p.expect_p(")")
        r = {"k": "none"}
        if p.at_p(":"):
            p.next()
            r = p.parse_type()
        body = p._skip_balanced() if p.at_p("{") else None
        if body is None:
            raise ParseError("function without body", p.peek().pos)
        check_balanced(body)
        return {"k": "function", "n": name, "exported": exported, "async": is_async, "ps": ps, "r": r,
                "calls": find_calls(body, src), "tps": tps, "bodyrefs": body_member_refs(body),
                "bodylocals": body_locals(body)}
    if p.at_id("enum") or p.at_id("class") or p.at_id("namespace") or p.at_id("abstract"):
        kind = p.next().v
        name = p.binding_name()
        while not p.at_p("{"):
            if p.peek().k == "eof":
                raise ParseError("expected body", p.peek().pos)
            p.next()
        p._skip_balanced()
        return {"k": kind, "n": name, "exported": exported}
    # expression statement
    e = p.parse_expr()
    return {"k": "exprstmt", "e": e}


def _type_params(p):
    tps = []
    if p.at_p("<"):
        p.next()
        while True:
            tps.append(p.binding_name())
            if p.at_id("extends"):
                p.next()
                p.parse_type()
            if p.at_p("="):
                p.next()
                p.parse_type()
            if p.at_p(","):
                p.next()
                continue
            break
        p.expect_p(">")
    return tps


ITEM_START = re.compile(r"^(export|import|declare|interface|type|const|let|var|function|async|enum|class)\b", re.M)


def split_items(src):
    """Split module text into top-level item chunks: an item starts at column 0 with a
    declaration keyword; leading header comment is dropped. This gives per-declaration error
    isolation (one bad declaration must not hide the others from the judges)."""
    # remove block comments first so that '/** ... */' docs do not confuse chunking, keeping
    # positions irrelevant (each chunk is re-tokenised on its own)
    starts = [m.start() for m in ITEM_START.finditer(src)]
    chunks = []
    for a, b in zip(starts, starts[1:] + [len(src)]):
        chunks.append(src[a:b])
    head = src[:starts[0]] if starts else src
    return head, chunks


def strip_trailing_comment(chunk):
    """A doc comment belonging to the NEXT item trails this chunk; remove trailing comments/space."""
    s = chunk.rstrip()
    while True:
        if s.endswith("*/"):
            j = s.rfind("/*")
            if j < 0:
                return s
            s = s[:j].rstrip()
            continue
        return s


def guess_name(chunk):
    m = re.match(r"\s*(?:export\s+)?(?:default\s+)?(?:declare\s+)?(?:async\s+)?(?:function|interface|type|const|let|var|enum|class)\s+([^\s(<={:]+)", chunk)
    return m.group(1) if m else ""


def parse_module(src):
    """-> {"items":[...], "errors":[{"name","msg","text"}], "head_ok": bool}"""
    items = []
    errors = []
    head, chunks = split_items(src)
    head_ok = True
    try:
        ht = tokenize(head)
        if len(ht) > 1:
            head_ok = False
            errors.append({"name": "", "msg": "stray tokens before first declaration", "text": ascii_safe(head[-200:])})
    except ParseError as e:
        head_ok = False
        errors.append({"name": "", "msg": ascii_safe(e.msg), "text": ascii_safe(head[-200:])})
    for ch in chunks:
        body = strip_trailing_comment(ch)
        try:
            it = parse_item(body)
            items.append(it)
        except ParseError as e:
            nm = guess_name(body)
            errors.append({"name": ascii_safe(nm), "msg": ascii_safe(e.msg), "text": ascii_safe(body[:300])})
            items.append({"k": "unparsable", "n": ascii_safe(nm), "msg": ascii_safe(e.msg)})
        except RecursionError:
            errors.append({"name": ascii_safe(guess_name(body)), "msg": "nesting too deep", "text": ascii_safe(body[:300])})
            items.append({"k": "unparsable", "n": ascii_safe(guess_name(body)), "msg": "nesting too deep"})
    return {"items": items, "errors": errors, "head_ok": head_ok}


def parse_type_text(text):
    toks = tokenize(text)
    p = Parser(toks)
    p._src = text
    t = p.parse_type()
    if p.peek().k != "eof":
        raise ParseError("trailing tokens after type", p.peek().pos)
    return t


if __name__ == "__main__":
    import json
    import sys
    print(json.dumps(parse_module(open(sys.argv[1]).read()), indent=1))
