INIT Init
NEXT Next
CONSTANTS MaxDepth = 1
 ExtraLeaves <- NoExtra
 LeafMode = "plain"
 WithPairs = FALSE
INVARIANT Emit
CHECK_DEADLOCK FALSE
