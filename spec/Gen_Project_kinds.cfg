INIT Init
NEXT Next
CONSTANT Mode = "kinds"
CONSTANT EmitDepth = 2
INVARIANT Emit
CHECK_DEADLOCK FALSE
