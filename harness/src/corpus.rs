//! C15 corpus driver: feed real-world Rust files (and truncations / mutations of them) through the REAL
//! library entry point, one file per project, both modes, catching panics.
//!
//! usage: tth corpus --roots DIR[,DIR..] --work DIR --out FILE [--max-files N] [--truncate K] [--mutate K]
//!                   [--seed S] [--threads T] [--command-prefix]
//! Output: ndjson, one record per (file, variant, mode) that did NOT end in Ok/Err, plus a summary line on stdout.
use serde_json::json;
use std::io::Write;
use std::path::{Path, PathBuf};
use std::sync::atomic::{AtomicUsize, Ordering};
use std::sync::{Arc, Mutex};
use tauri_typegen::GenerateConfig;

fn collect(root: &Path, out: &mut Vec<PathBuf>) {
    let rd = match std::fs::read_dir(root) {
        Ok(r) => r,
        Err(_) => return,
    };
    let mut entries: Vec<_> = rd.filter_map(|e| e.ok()).map(|e| e.path()).collect();
    entries.sort();
    for p in entries {
        if p.is_dir() {
            collect(&p, out);
        } else if p.extension().map(|e| e == "rs").unwrap_or(false) {
            out.push(p);
        }
    }
}

struct Rng(u64);
impl Rng {
    fn next(&mut self) -> u64 {
        self.0 ^= self.0 << 13;
        self.0 ^= self.0 >> 7;
        self.0 ^= self.0 << 17;
        self.0
    }
}

/// Run one project (a directory with src/) through generate_from_config; returns "ok" | "err" | "panic: .."
fn run_one(project: &Path, out: &Path, mode: &str) -> String {
    let cfg = GenerateConfig {
        project_path: project.to_string_lossy().to_string(),
        output_path: out.to_string_lossy().to_string(),
        validation_library: mode.to_string(),
        ..Default::default()
    };
    let r = std::panic::catch_unwind(|| tauri_typegen::generate_from_config(&cfg).map(|_| ()).map_err(|e| e.to_string()));
    match r {
        Ok(Ok(())) => "ok".to_string(),
        Ok(Err(_)) => "err".to_string(),
        Err(p) => {
            let msg = if let Some(s) = p.downcast_ref::<String>() {
                s.clone()
            } else if let Some(s) = p.downcast_ref::<&str>() {
                s.to_string()
            } else {
                "?".to_string()
            };
            format!("panic: {}", msg)
        }
    }
}

pub fn main(args: &[String]) -> i32 {
    let mut roots: Vec<PathBuf> = vec![];
    let mut work = PathBuf::from("corpus-work");
    let mut out = PathBuf::from("corpus.ndjson");
    let mut max_files = usize::MAX;
    let mut truncate = 0usize;
    let mut mutate = 0usize;
    let mut seed = 1u64;
    let mut threads = 8usize;
    let mut i = 0;
    while i < args.len() {
        let v = args.get(i + 1).cloned().unwrap_or_default();
        match args[i].as_str() {
            "--roots" => roots = v.split(',').map(PathBuf::from).collect(),
            "--work" => work = PathBuf::from(v),
            "--out" => out = PathBuf::from(v),
            "--max-files" => max_files = v.parse().unwrap_or(usize::MAX),
            "--truncate" => truncate = v.parse().unwrap_or(0),
            "--mutate" => mutate = v.parse().unwrap_or(0),
            "--seed" => seed = v.parse().unwrap_or(1),
            "--threads" => threads = v.parse().unwrap_or(8),
            other => {
                eprintln!("corpus: unknown arg {}", other);
                return 2;
            }
        }
        i += 2;
    }
    let mut files = vec![];
    for r in &roots {
        collect(r, &mut files);
    }
    // deterministic seeded selection
    let mut rng = Rng(seed.wrapping_mul(0x9E3779B97F4A7C15) | 1);
    if files.len() > max_files {
        for k in (1..files.len()).rev() {
            let j = (rng.next() % (k as u64 + 1)) as usize;
            files.swap(k, j);
        }
        files.truncate(max_files);
        files.sort();
    }
    let files = Arc::new(files);
    let next = Arc::new(AtomicUsize::new(0));
    let bad: Arc<Mutex<Vec<serde_json::Value>>> = Arc::new(Mutex::new(vec![]));
    let runs = Arc::new(AtomicUsize::new(0));
    let oks = Arc::new(AtomicUsize::new(0));
    let errs = Arc::new(AtomicUsize::new(0));
    // silence the default panic hook (thousands of files): the payload is captured by catch_unwind
    std::panic::set_hook(Box::new(|_| {}));
    let mut handles = vec![];
    for t in 0..threads {
        let files = files.clone();
        let next = next.clone();
        let bad = bad.clone();
        let runs = runs.clone();
        let oks = oks.clone();
        let errs = errs.clone();
        let _ = t;
        let work = work.join(format!("t{}", t));
        handles.push(std::thread::spawn(move || {
            let src = work.join("proj").join("src");
            let outd = work.join("out");
            let _ = std::fs::create_dir_all(&src);
            loop {
                let idx = next.fetch_add(1, Ordering::SeqCst);
                if idx >= files.len() {
                    break;
                }
                // per-file generator: the variants of a file do not depend on which thread picks it up
                let mut rng = Rng((seed.wrapping_mul(1_000_003) + idx as u64 + 1).wrapping_mul(0x2545F4914F6CDD1D) | 1);
                let path = &files[idx];
                let text = match std::fs::read_to_string(path) {
                    Ok(t) => t,
                    Err(_) => continue, // not UTF-8: outside the property's quantifier
                };
                let mut variants: Vec<(String, String)> = vec![("whole".to_string(), text.clone())];
                // make sure commands exist so that generation (not only analysis) runs: prepend one
                variants.push(("with-command".to_string(), format!("#[tauri::command]\npub fn corpus_anchor() {{}}\n{}", text)));
                let lines: Vec<&str> = text.lines().collect();
                for k in 0..truncate {
                    if lines.len() < 2 {
                        break;
                    }
                    let cut = 1 + (rng.next() as usize) % (lines.len() - 1);
                    let mut t = lines[..cut].join("\n");
                    // also cut inside the last line at a char boundary
                    if k % 2 == 1 {
                        let l = lines[cut];
                        let cs: Vec<char> = l.chars().collect();
                        if !cs.is_empty() {
                            let c = (rng.next() as usize) % cs.len();
                            t.push('\n');
                            t.extend(cs[..c].iter());
                        }
                    }
                    variants.push((format!("truncated@{}", cut), format!("#[tauri::command]\npub fn corpus_anchor() {{}}\n{}", t)));
                }
                for _k in 0..mutate {
                    // character-level mutation: delete / duplicate / replace one char with an interesting one
                    let mut cs: Vec<char> = text.chars().collect();
                    if cs.is_empty() {
                        break;
                    }
                    let pos = (rng.next() as usize) % cs.len();
                    let pool = ['"', '\'', '(', ')', '<', '>', ',', '#', 'é', '€', '😀', '\\', '{', '}', '[', ']', ':', ' '];
                    match rng.next() % 3 {
                        0 => {
                            cs.remove(pos);
                        }
                        1 => {
                            let c = cs[pos];
                            cs.insert(pos, c);
                        }
                        _ => {
                            cs[pos] = pool[(rng.next() as usize) % pool.len()];
                        }
                    }
                    let t: String = cs.into_iter().collect();
                    variants.push((format!("mutated@{}", pos), format!("#[tauri::command]\npub fn corpus_anchor() {{}}\n{}", t)));
                }
                for (vname, vtext) in variants {
                    let f = src.join("lib.rs");
                    if std::fs::write(&f, &vtext).is_err() {
                        continue;
                    }
                    for mode in ["none", "zod"] {
                        let _ = std::fs::remove_dir_all(&outd);
                        let status = run_one(&work.join("proj"), &outd, mode);
                        runs.fetch_add(1, Ordering::Relaxed);
                        if status == "ok" {
                            oks.fetch_add(1, Ordering::Relaxed);
                        } else if status == "err" {
                            errs.fetch_add(1, Ordering::Relaxed);
                        } else {
                            let keep = work.join(format!("bad-{}-{}.rs", idx, vname.replace('@', "_")));
                            let _ = std::fs::write(&keep, &vtext);
                            bad.lock().unwrap().push(json!({"file": path.to_string_lossy(), "variant": vname, "mode": mode,
                                                           "status": status, "saved": keep.to_string_lossy()}));
                        }
                    }
                }
            }
        }));
    }
    for h in handles {
        let _ = h.join();
    }
    let bad = bad.lock().unwrap();
    let mut w = std::fs::File::create(&out).unwrap();
    for b in bad.iter() {
        writeln!(w, "{}", b).unwrap();
    }
    println!(
        "{}",
        json!({"files": files.len(), "runs": runs.load(Ordering::Relaxed), "ok": oks.load(Ordering::Relaxed),
               "err": errs.load(Ordering::Relaxed), "abnormal": bad.len()})
    );
    0
}
