"""C08 - the cache never leaves stale bindings: success means output is current.

Model checking : spec/Pipeline.tla (intended knobs: every contract invariant holds; as-built knobs:
                 TLC shows which do not) - every interleaving of edits/losses with runs in the bound.
Replay         : every history TLC enumerates from the as-built configuration (one representative edit
                 per output-affecting class, loss of each generated file, events/commands toggled;
                 1 environment step quick / 2 thorough + seeded sample) is executed on the REAL CLI and
                 the REAL build driver (fresh processes, under strace).
Trace validation: Trace_Pipeline.tla judges every run: RunEnd(ok) => every file a forced generation
                 would write is present and current (differential oracle = forced run of the same binary).
"""
import json
import os
import random
import shutil
import time

from lib import common as C
from lib import pipecheck as P

PROP = "C08"


def window_key(hist, run_idx):
    """environment steps since the last run that regenerated successfully (before run run_idx)"""
    steps = []
    n = -1
    i = 0
    pending_end = None
    for h in hist:
        if h[0] == "run":
            n += 1
            if n == run_idx:
                break
        elif h[0] == "end":
            # predicted end of run n: regenerated successfully => window restarts
            if h[1] == "ok" and h[2] not in (True, "TRUE"):
                steps = []
        else:
            steps.append(P.hist_key([h]))
    return sorted(set(steps))


def run(tier, seed, only=None):
    t0 = time.time()
    d = C.scratch("c08")
    verdicts = C.Verdicts(PROP)
    mc, states, transitions = P.model_check()
    cases = []
    ngen = {}
    if only is not None:
        cases = only
    else:
        rnd = random.Random(seed)
        for drv in ("cli", "build"):
            hs, g = P.gen_histories("Gen_Pipeline_%s_e1" % drv)
            ngen["e1-" + drv] = len(hs)
            hs2, g2 = P.gen_histories("Gen_Pipeline_%s_e2" % drv, timeout=3000)
            ngen["e2-" + drv] = len(hs2)
            if tier == "quick":
                hs2 = rnd.sample(hs2, min(30, len(hs2)))
            for i, h in enumerate(hs + hs2):
                cases.append({"id": "%s-%d" % (drv, i), "h": h["h"], "ev": h["ev"], "viz": h["viz"], "cmds": h.get("cmds", True)})
            # histories that START with the dependency visualisation on: losing one of the two graph files, switching the
            # visualisation off, every edit class - one environment step away
            hv, _ = P.gen_histories("Gen_Pipeline_%s_e1viz" % drv)
            ngen["e1viz-" + drv] = len(hv)
            for i, h in enumerate(hv):
                cases.append({"id": "%s-viz%d" % (drv, i), "h": h["h"], "ev": h["ev"], "viz": h["viz"], "cmds": h.get("cmds", True)})
            # histories that START in a project without commands (the first run generates nothing; commands appear later)
            hf, _ = P.gen_histories("Gen_Pipeline_%s_fresh" % drv)
            ngen["fresh-" + drv] = len(hf)
            for i, h in enumerate(hf):
                cases.append({"id": "%s-fresh%d" % (drv, i), "h": h["h"], "ev": h["ev"], "viz": h["viz"], "cmds": h.get("cmds", True)})
    allev, info = P.replay_all(d, cases)
    mism = P.validate(d, allev)
    first = P.first_mismatch_per_case(mism, PROP)
    by_id = {c["id"]: c for c in cases}
    rows = []
    for case, (line, what) in first.items():
        c = by_id[case]
        ridx = P.run_index_of_line(info, case, line)
        drv = c["id"].split("-")[0] if "driver" not in c else c["driver"]
        win = window_key(c["h"], ridx)
        rows.append((drv, win, what, c, ridx))
    # minimal windows only
    fail_sets = {(drv, tuple(win)) for drv, win, _, _, _ in rows}
    for drv, win, what, c, ridx in rows:
        if any(d2 == drv and set(w2) < set(win) for (d2, w2) in fail_sets):
            continue
        files = what[1] if isinstance(what, list) and len(what) > 1 else str(what)
        statuses = sorted(set(x for x in ("stale", "absent") if x in str(files)))
        verdicts.reject("driver=%s since_last_generation=%s" % (drv, ";".join(win) or "nothing"),
                        "success_with=%s" % ",".join(statuses),
                        "%s run reports success although generated files are not current (%s) after: %s"
                        % (drv, files, ";".join(win) or "no change"),
                        {"history": c["h"], "ev": c.get("ev", True), "viz": c.get("viz", False), "driver": drv,
                         "failing_run": ridx, "full_history": P.hist_key(c["h"])})
    # drift of the as-built model: predicted (status, skipped) vs real, per run
    drift = []
    nruns = 0
    for cid, inf in info.items():
        for i, cm in enumerate(inf["cmp"]):
            nruns += 1
            if cm["predicted"] != cm["real"]:
                drift.append({"case": cid, "run": i, "predicted": cm["predicted"], "real": cm["real"],
                              "history": P.hist_key(by_id[cid]["h"])})
    rc = verdicts.finish()
    C.write_evidence(PROP, tier, seed, "model_checking", {
        "states": states, "transitions": transitions,
        "traces_validated_against_impl": len(cases),
        "samples": [P.hist_key(c["h"]) for c in cases[:: max(1, len(cases) // 6)][:6]],
        "model_checking_runs": mc,
        "histories_generated_by_tlc": ngen,
        "real_runs": nruns, "trace_events": len(allev),
        "rejected_behaviours": len(first), "known_findings_matched": len(verdicts.known_hit),
        "asbuilt_drift": {"runs_compared": nruns, "mismatching": len(drift), "examples": drift[:8]},
        "rule": "histories = TLC enumeration of Pipeline (as-built knobs, replay constraint) with 14 edit classes, "
                "events/commands toggles, loss of each generated file; %s; each executed on real CLI and real build driver"
                % ("<=1 environment step exhaustively + 30 sampled with 2" if tier == "quick" else "<=2 environment steps exhaustively"),
        "exhaustive": tier == "thorough",
    }, time.time() - t0, assumptions=[
        "differential oracle: a file is current iff it equals (timestamp stripped) what a forced run of the same binary writes for the same sources",
        "strace reports every file-mutating system call of the traced process tree",
    ], violations=len(verdicts.violations))
    shutil.rmtree(d, ignore_errors=True)
    return rc


def replay(path, seed):
    obj = json.load(open(path))
    c = obj["case"]
    return run("quick", seed, only=[{"id": "%s-0" % c["driver"], "h": c["history"], "ev": c["ev"], "viz": c["viz"], "driver": c["driver"]}])
