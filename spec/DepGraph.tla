------------------------------ MODULE DepGraph ------------------------------
(***************************************************************************)
(* The two dependency-ordering routines of tauri-typegen.                  *)
(*                                                                         *)
(*   (1) TypeDependencyGraph::topological_sort_types / topological_visit   *)
(*       (src/analysis/dependency_graph.rs): post-order DFS over           *)
(*       HashMap<String, HashSet<String>> with a `visiting' set that cuts  *)
(*       back edges.  Both the outer loop (over the requested HashSet) and *)
(*       the inner loop (over a type's HashSet of dependencies) iterate in *)
(*       an order the program cannot control; every order is a separate    *)
(*       behaviour of this step machine.                                   *)
(*   (2) DependencyResolver::resolve_build_order                           *)
(*       (src/build/dependency_resolver.rs): Kahn's algorithm, in-degree   *)
(*       map, initial queue filled by HashMap iteration.                   *)
(*                                                                         *)
(* Contract layer  : TopoContract, KahnContract  (property C20; reused by  *)
(*                   C09 through Output.tla).                              *)
(* As-built layer  : the step machines DfsNext / KahnNext.                 *)
(***************************************************************************)
EXTENDS Naturals, Sequences, FiniteSets, TLC

-----------------------------------------------------------------------------
(* Graph vocabulary shared by both layers.  `deps[n]' is the set of nodes   *)
(* n depends on ("n uses d" => d must be declared first).                   *)

Range(s) == {s[i] : i \in DOMAIN s}
NoDup(s) == \A i, j \in DOMAIN s : i # j => s[i] # s[j]
Pos(s, x) == CHOOSE i \in DOMAIN s : s[i] = x

\* Nodes reachable from set S following deps (S included).
RECURSIVE ReachFrom(_, _)
ReachFrom(deps, S) ==
    LET step == S \cup UNION {deps[n] : n \in S}
    IN IF step = S THEN S ELSE ReachFrom(deps, step)

\* Strict reachability: is y reachable from x by a path of length >= 1 ?
Reaches(deps, x, y) == y \in ReachFrom(deps, deps[x])

OnCommonCycle(deps, a, b) == Reaches(deps, a, b) /\ Reaches(deps, b, a)

Acyclic(deps) == \A n \in DOMAIN deps : ~Reaches(deps, n, n)

-----------------------------------------------------------------------------
(* CONTRACT LAYER                                                           *)

\* C20, first sentence.  deps : [N -> SUBSET N], requested \subseteq N,
\* result : Seq(N).
TopoExactlyOnce(deps, requested, result) ==
    /\ NoDup(result)
    /\ Range(result) = ReachFrom(deps, requested)

TopoDepsFirst(deps, result) ==
    \A a, b \in Range(result) :
        (b \in deps[a] /\ a # b /\ ~OnCommonCycle(deps, a, b))
            => Pos(result, b) < Pos(result, a)

TopoContract(deps, requested, result) ==
    /\ TopoExactlyOnce(deps, requested, result)
    /\ TopoDepsFirst(deps, result)

\* C20, second sentence.  nodeSet: set of nodes; uses: set of <<from,to>>
\* pairs ("from uses to"); outcome: [ok |-> BOOLEAN, order |-> Seq].
UsesAsDeps(nodeSet, uses) == [n \in nodeSet |-> {p[2] : p \in {q \in uses : q[1] = n}}]

KahnContract(nodeSet, uses, outcome) ==
    LET deps == UsesAsDeps(nodeSet, uses) IN
    IF Acyclic(deps)
    THEN /\ outcome.ok
         /\ NoDup(outcome.order)
         /\ Range(outcome.order) = nodeSet
         /\ \A p \in uses : Pos(outcome.order, p[2]) < Pos(outcome.order, p[1])
    ELSE ~outcome.ok
=============================================================================
