SPECIFICATION KahnSpec
CONSTANTS Nodes = {"T0","T1","T2"}
 MaxMult = 2
INVARIANTS KahnContractHolds
PROPERTIES KahnEventuallyDone
CHECK_DEADLOCK FALSE
