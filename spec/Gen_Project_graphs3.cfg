INIT Init
NEXT Next
CONSTANT Mode = "graphs3"
CONSTANT EmitDepth = 2
INVARIANT Emit
CHECK_DEADLOCK FALSE
