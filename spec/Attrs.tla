-------------------------------- MODULE Attrs --------------------------------
(***************************************************************************)
(* Validator attributes -> the Zod constraints they must become (C11).     *)
(*                                                                         *)
(* v : [length |-> [p, min, max, hasMsg, msg], range |-> [same],           *)
(*      email |-> [p, hasMsg, msg], url |-> [p, hasMsg, msg]]              *)
(*   min / max : "none" or the canonical decimal string of the literal     *)
(*   msg       : the declared message as a character sequence              *)
(* tc : field type class  "string" | "number" | "vec" | "optstring" |      *)
(*      "optnumber"                                                        *)
(* A constraint call : [m |-> "min"|"max"|"email"|"url", v |-> canon or    *)
(*                      "none", hasMsg, msg]                               *)
(***************************************************************************)
EXTENDS Naturals, Sequences, FiniteSets, TLC

Bound(kind, b, c) ==
    IF b = "none" THEN {}
    ELSE {[m |-> kind, v |-> b, hasMsg |-> c.hasMsg, msg |-> IF c.hasMsg THEN c.msg ELSE <<>>]}

Flag(kind, c) == {[m |-> kind, v |-> "none", hasMsg |-> c.hasMsg, msg |-> IF c.hasMsg THEN c.msg ELSE <<>>]}

Sized(tc)   == tc \in {"string", "vec", "optstring"}
Numeric(tc) == tc \in {"number", "optnumber"}
Textual(tc) == tc \in {"string", "optstring"}

\* exactly the declared constraints, on the field they were declared on
Expected(v, tc) ==
    (IF v.length.p /\ Sized(tc) THEN Bound("min", v.length.min, v.length) \cup Bound("max", v.length.max, v.length) ELSE {})
    \cup (IF v.range.p /\ Numeric(tc) THEN Bound("min", v.range.min, v.range) \cup Bound("max", v.range.max, v.range) ELSE {})
    \cup (IF v.email.p /\ Textual(tc) THEN Flag("email", v.email) ELSE {})
    \cup (IF v.url.p /\ Textual(tc) THEN Flag("url", v.url) ELSE {})

AsSet(s) == {s[i] : i \in DOMAIN s}

\* observed : <<constraint call>> found on the field's schema chain, in order
C11_Holds(v, tc, observed) ==
    /\ AsSet(observed) = Expected(v, tc)
    /\ Len(observed) = Cardinality(Expected(v, tc))
=============================================================================
