"""Shared by C07, C09 and C02: TLC-enumerated type graphs -> real projects -> observations."""
import os
import random
from concurrent.futures import ThreadPoolExecutor

from lib import common as C
from lib import projcases as PC

PACK = 60


def generate(tier, seed):
    rnd = random.Random(seed * 7919 + 13)
    modes = ["graphs3", "edges", "layouts", "derives", "edges2", "pairroots", "kinds", "graphs4"]
    with ThreadPoolExecutor(max_workers=4) as ex:
        outs = list(ex.map(lambda m: C.run_tlc("Gen_Project", "Gen_Project_" + m, workers=2, timeout=900, heap="6g").json_lines("REPLAY"), modes))
    g3, ge, gl, gd, g2, gp, gk, g4 = outs
    if len(g4) != 543:
        raise C.ToolError("four-node DAG generation incomplete: %d" % len(g4))
    if len(g3) < 3000 or len(ge) < 3000 or len(gl) < 2560 or len(gd) < 3456 or len(g2) < 800:
        raise C.ToolError("graph generation incomplete: %d %d %d %d %d" % (len(g3), len(ge), len(gl), len(gd), len(g2)))
    if len(gp) < 192 + 360:
        raise C.ToolError("pair-root generation incomplete: %d" % len(gp))
    if len(gk) < 288:
        raise C.ToolError("node-kind generation incomplete: %d" % len(gk))
    if tier == "quick":
        seen = set()
        pick = []
        rnd.shuffle(gk)
        for c in gk:
            nkd = c["nodekind"]
            ectx = sorted({e["ctx"] for n in c["edges"] for e in c["edges"][n]})
            ks = [("k", nkd["B"], nkd["C"], len(c["edges"]["A"])), ("s", nkd["C"], c["roots"][0]["site"], tuple(ectx)), ("r", nkd["A"], c["roots"][0]["site"], c["roots"][0]["ctx"])]
            if any(k not in seen for k in ks):
                seen.update(ks)
                pick.append(c)
        gk = pick
    total = (len(g3), len(ge), len(gl), len(gd), len(g2), len(gp), len(gk), len(g4))
    rnd = random.Random(seed)
    if tier == "quick":
        g3 = rnd.sample(g3, 500)
        # every (edge context, root site) and every (root context, root site) at least once
        seen = set()
        pick = []
        rnd.shuffle(ge)
        for c in ge:
            ectx = [e["ctx"] for e in c["edges"]["A"] if e["to"] == "B"][0]
            r = c["roots"][0]
            shape = tuple(sorted((n, tuple(sorted(e["to"] for e in c["edges"][n]))) for n in c["edges"]))
            ks = [("e", ectx, r["site"]), ("r", r["ctx"], r["site"]), ("s", c["serde"]["D"], ectx), ("sh", shape, ectx)]
            if any(k not in seen for k in ks):
                seen.update(ks)
                pick.append(c)
        ge = pick
        # layouts: every (shape, root site) with every relative order of the four placements (which of cmd/A/B/C
        # come earlier, together or later): 75 weak orders x 5 shapes x 2 sites, one assignment each
        seen = set()
        pick = []
        rnd.shuffle(gl)
        for c in gl:
            pl = c["place"]
            ranks = sorted(set(pl.values()))
            weak = tuple(ranks.index(pl[k]) for k in ("cmd", "A", "B", "C"))
            shape = tuple(sorted((n, tuple(sorted(e["to"] for e in c["edges"][n]))) for n in c["edges"]))
            k = (weak, shape, c["roots"][0]["site"])
            if k not in seen:
                seen.add(k)
                pick.append(c)
        gl = pick
        # derive spellings: every spelling at every node of each shape, and every (spelling of A, spelling of B) pair
        seen = set()
        pick = []
        rnd.shuffle(gd)
        for c in gd:
            dk = c["derive"]
            shape = len(c["edges"]["A"])
            ks = [("n", n, dk[n], shape) for n in ("A", "B", "C")] + [("ab", dk["A"], dk["B"], shape)]
            if any(k not in seen for k in ks):
                seen.update(ks)
                pick.append(c)
        gd = pick
        # nested edge contexts: every context pair at the parameter site, a seeded third of them at the return site
        g2 = [c for c in g2 if c["roots"][0]["site"] == "param" or rnd.random() < 0.34]
    return g3 + ge + gl + gd + g2 + gp + gk + g4, total


def observe(d, cases, modes=("none", "zod"), repeats=1):
    """-> list of dict(case index, mode, types, roots, declared, bindings-level events)"""
    indexed = list(enumerate(cases))
    packs = [indexed[i:i + PACK] for i in range(0, len(indexed), PACK)]
    jobs = [(pi, pk, mode, rep) for pi, pk in enumerate(packs) for mode in modes for rep in range(repeats)]

    def work(job):
        pi, pk, mode, rep = job
        head = PC.PRELUDE + "use tauri::Emitter;\n"
        src = [head]
        files = {}
        meta = []
        for i, g in pk:
            parts, types, roots, pre = PC.graph_source(i, g)
            if g.get("place") and len(g["place"]) > 1:
                for slot, text in parts.items():
                    files[PC.SLOT_PATHS[slot] % i] = head + text
            else:
                src.append("\n".join(parts[k] for k in sorted(parts)))
            meta.append((i, types, roots, pre))
        files["src/lib.rs"] = "\n".join(src) + "\n#[tauri::command]\npub fn pack_anchor() {}\n"
        b, res, texts = PC.run_project(d, "g%d-%s-%d" % (pi, mode, rep), files, mode=mode)
        out = []
        for i, types, roots, pre in meta:
            out.append({"idx": i, "mode": mode, "types": types, "roots": roots, "declared": PC.declared_types(b, pre),
                        "status": res.status})
        mods = PC.modules_event(b, texts, "g%d-%s-%d" % (pi, mode, rep)) if b else None
        return out, mods, mode, res.status
    reach = []
    modules = []
    with ThreadPoolExecutor(max_workers=10) as ex:
        for out, mods, mode, status in ex.map(work, jobs):
            reach.extend(out)
            if mods:
                mods["mode"] = mode
                modules.append(mods)
    return reach, modules
