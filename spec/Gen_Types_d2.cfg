INIT Init
NEXT Next
CONSTANTS MaxDepth = 2
 WithPairs = TRUE
INVARIANT Emit
CHECK_DEADLOCK FALSE
