----------------------------- MODULE MC_Wrapper -----------------------------
(* Model checking of Wrapper: every kind x every environment; the hook protocol holds of every finished call.   *)
(* The same module prints one REPLAY line per (kind, env) with the model's event log for the conformance replay. *)
EXTENDS Wrapper, Json, TLC

VARIABLES kind, env, st, log

Envs == [val : {"ok", "fail"}, inv : {"resolve", "reject"}, hook : [HookNames -> {"absent", "ok", "throws"}]]

Init == /\ kind \in Kinds
        /\ env \in Envs
        /\ (~Validates(kind) => env.val = "ok")
        /\ (~HasHooks(kind) => \A h \in HookNames : env.hook[h] = "absent")
        /\ st = InitSt /\ log = <<>>
Next == /\ st.pc # "end"
        /\ LET r == Advance(kind, env, st) IN
           /\ st' = r.st
           /\ log' = IF r.ev.what = "tau" THEN log ELSE Append(log, r.ev)
        /\ UNCHANGED <<kind, env>>
Spec == Init /\ [][Next]_<<kind, env, st, log>>

Finished == st.pc = "end"
ProtocolHolds == Finished => Protocol(kind, env, log)
Terminates == Len(log) <= 8
Emit == Finished => PrintT(<<"REPLAY", ToJson([kind |-> kind, env |-> env, log |-> log])>>)
=============================================================================
