------------------------------- MODULE Scanner -------------------------------
(***************************************************************************)
(* Beyond the listed properties (X02): project detection of the build      *)
(* driver (src/build/project_scanner.rs detect_project / check_directory /  *)
(* get_recommended_output_path), transcribed as a function over an abstract *)
(* chain of directories.                                                   *)
(*                                                                         *)
(* chain[1] is the directory the scan starts in, chain[i+1] its parent.    *)
(* A directory is                                                          *)
(*   [json : BOOLEAN,        tauri.conf.json present                       *)
(*    js   : BOOLEAN,        tauri.conf.js present                         *)
(*    st   : "none"|"file"|"dir",  an entry called src-tauri               *)
(*    dev  : "none"|"app"|"notjson", build.devPath of tauri.conf.json      *)
(*                           (absent / "app" / the file is not JSON)       *)
(*    pkg  : BOOLEAN]        package.json present                          *)
(*                                                                         *)
(* As built (named deviations, kept because the code does this today):     *)
(*   StFileCounts   a *file* called src-tauri makes the directory a        *)
(*                  project as well (exists() without is_dir())            *)
(*   DevPathIsSrc   with a JSON config and no src-tauri directory the      *)
(*                  source path is build.devPath (a Tauri-1 frontend key)  *)
(***************************************************************************)
EXTENDS Naturals, Sequences

IsProject(d) == d.json \/ d.js \/ d.st # "none"

Config(d) == IF d.json THEN "json" ELSE IF d.js THEN "js" ELSE "none"

Src(d) == IF d.st = "dir" THEN "src-tauri"
          ELSE IF d.json /\ d.dev = "app" THEN "app"
          ELSE "src-tauri"

Output(d) == IF d.pkg THEN "./src/generated" ELSE "./generated"

RECURSIVE FirstProject(_, _)
FirstProject(chain, i) ==
    IF i > Len(chain) THEN 0
    ELSE IF IsProject(chain[i]) THEN i ELSE FirstProject(chain, i + 1)

NotFound == [found |-> FALSE, level |-> 0, config |-> "none", src |-> "none", out |-> "none"]

Detect(chain) ==
    LET i == FirstProject(chain, 1) IN
    IF i = 0 THEN NotFound
    ELSE [found |-> TRUE, level |-> i, config |-> Config(chain[i]), src |-> Src(chain[i]), out |-> Output(chain[i])]

\* what any scanner must satisfy, whatever its tie-breaking: the nearest enclosing project wins and
\* nothing is found where nothing is
NearestWins(chain, r) ==
    /\ r.found <=> \E i \in 1..Len(chain) : IsProject(chain[i])
    /\ r.found => /\ IsProject(chain[r.level])
                  /\ \A j \in 1..(r.level - 1) : ~IsProject(chain[j])
=============================================================================
