"""Compact printing of parsed TS type / expression ASTs (for messages and finding signatures)."""


def show(t):
    k = t.get("k")
    if k == "kw":
        return t["n"]
    if k == "ref":
        s = (t["q"] + "." if t.get("q") else "") + t["n"]
        if t.get("args"):
            s += "<" + ", ".join(show(a) for a in t["args"]) + ">"
        return s
    if k == "arr":
        e = t["e"]
        inner = show(e)
        if e.get("k") in ("union", "inter", "fn"):
            inner = "(" + inner + ")"
        return inner + "[]"
    if k == "union":
        return " | ".join(show(x) for x in t["ts"])
    if k == "inter":
        return " & ".join(show(x) for x in t["ts"])
    if k == "tuple":
        return "[" + ", ".join(show(x) for x in t["ts"]) + "]"
    if k == "lit":
        return '"%s"' % t["v"]
    if k == "numlit":
        return t["v"]
    if k == "obj":
        ms = ["%s%s: %s" % (('"%s"' % m["key"]) if m["quoted"] else m["key"], "?" if m["opt"] else "", show(m["t"])) for m in t["ms"]]
        ms += ["[key: %s]: %s" % (show(i["kt"]), show(i["vt"])) for i in t["idx"]]
        return "{ " + "; ".join(ms) + " }"
    if k == "fn":
        return "(...) => " + show(t["r"])
    if k == "typeof":
        return "typeof " + t["n"]
    if k == "notpromise":
        return "<not a Promise: %s>" % show(t["t"])
    return "<%s>" % k


def show_expr(e):
    k = e.get("k")
    if k == "id":
        return e["n"]
    if k == "schemaref":
        return e["n"]
    if k == "member":
        return show_expr(e["o"]) + "." + e["p"]
    if k == "call":
        ta = ("<" + ", ".join(show(x) for x in e["targs"]) + ">") if e.get("targs") else ""
        return show_expr(e["f"]) + ta + "(" + ", ".join(show_expr(a) for a in e["as"]) + ")"
    if k == "str":
        return '"%s"' % e["v"]
    if k == "num":
        return e["v"]
    if k == "bool":
        return e["v"]
    if k == "arrlit":
        return "[" + ", ".join(show_expr(x) for x in e["es"]) + "]"
    if k == "objlit":
        ps = []
        for p in e["ps"]:
            if p["k"] == "spread":
                ps.append("..." + show_expr(p["e"]))
            else:
                ps.append("%s: %s" % (p["key"], show_expr(p["v"])))
        return "{ " + ", ".join(ps) + " }"
    if k == "arrow":
        b = e["body"]
        return "(%s) => %s" % (", ".join(e["ps"]), "{...}" if b.get("k") == "block" else show_expr(b))
    if k == "spread":
        return "..." + show_expr(e["e"])
    return "<%s>" % k
