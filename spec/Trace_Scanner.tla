---------------------------- MODULE Trace_Scanner ----------------------------
(* Trace validation for X02: each event holds the abstract chain of a real directory tree and what the real       *)
(* ProjectScanner reported for it; TLC requires the report to equal Scanner!Detect(chain).                         *)
EXTENDS Scanner, Json, IOUtils, TLC

Rec == ndJsonDeserialize(IOEnv.TRACE)
VARIABLE l

Judge(e) == e.observed = Detect(e.chain)

TraceInit == l = 1
TraceNext ==
    /\ l <= Len(Rec)
    /\ IF Judge(Rec[l]) THEN TRUE ELSE PrintT(<<"MISMATCH", l, "Scan", Rec[l].case, <<"expected", Detect(Rec[l].chain), "observed", Rec[l].observed>>>>)
    /\ l' = l + 1
TraceSpec == TraceInit /\ [][TraceNext]_l
TraceAccepted ==
    LET d == TLCGet("stats").diameter IN
    IF d - 1 = Len(Rec) THEN PrintT(<<"TRACE-CONSUMED", Len(Rec)>>)
    ELSE PrintT(<<"TRACE-STUCK", d, Len(Rec)>>) /\ FALSE
=============================================================================
