"""X05 (beyond the listed properties) - which configuration a build-script run uses and what it asks cargo to watch.

spec/BuildWatch.tla states, for every combination of a tauri.conf.json (absent / with a typegen entry / without one /
not JSON / naming an unsupported library), a typegen.json (absent / valid / not JSON) and an output directory that
exists or not (30 cases), which source the run takes its settings from and which cargo:rerun-if-changed directives it
prints.  TLC checks the table against InputsWatched (everything the run read is watched) and - negative control -
shows that it does not satisfy OutputWatched (deviation OutputWatchedOnlyIfPresent); each case is one real run of
BuildSystem::generate_at_build_time in a fresh sandbox and Trace_BuildWatch requires observed = Expected(case).
Not registered in MANIFEST.json.
"""
import json
import os
import shutil
import subprocess
import time
from concurrent.futures import ThreadPoolExecutor

from lib import common as C
from lib import rustgen

PROP = "X05"
OUT = {"conf": "gen-conf", "tg": "gen-tg", "defaults": "src/generated"}


def source_of(c):
    return "conf" if c["conf"] == "entry" else "tg" if c["tg"] == "valid" else "defaults"


def one(d, i, c):
    root = os.path.join(d, "b%d" % i)
    files = {"src-tauri/src/lib.rs": rustgen.PRELUDE + "#[tauri::command]\npub fn hello(name: String) -> String { name }\n"}
    entry = {"projectPath": "./src-tauri", "outputPath": "./gen-conf", "validationLibrary": "none"}
    doc = {"productName": "demo", "plugins": {"shell": {"open": True}}}
    if c["conf"] == "entry":
        doc["plugins"]["typegen"] = entry
    elif c["conf"] == "badlib":
        doc["plugins"]["typegen"] = dict(entry, validationLibrary="yup")
    if c["conf"] == "notjson":
        files["tauri.conf.json"] = "{ this is not json"
    elif c["conf"] != "none":
        files["tauri.conf.json"] = json.dumps(doc, indent=2)
    if c["tg"] == "valid":
        files["typegen.json"] = json.dumps({"project_path": "./src-tauri", "output_path": "./gen-tg", "validation_library": "none"}, indent=2)
    elif c["tg"] == "notjson":
        files["typegen.json"] = "{ nor is this"
    rustgen.write_project(root, files)
    src = source_of(c)
    if c["out"]:
        os.makedirs(os.path.join(root, OUT[src]), exist_ok=True)
    p = subprocess.run([C.TTH, "build"], cwd=root, stdout=subprocess.PIPE, stderr=subprocess.PIPE, timeout=120)
    out = p.stdout.decode("utf8", "replace")
    watched = []
    for line in out.splitlines():
        if line.startswith("cargo:rerun-if-changed="):
            x = line.split("=", 1)[1]
            nx = os.path.normpath(x)
            role = "project" if nx == "src-tauri" else x if x in ("tauri.conf.json", "typegen.json") else "output" if nx in OUT.values() else "other:" + x
            if role not in watched:
                watched.append(role)
    got = [k for k, rel in OUT.items() if os.path.isfile(os.path.join(root, rel, "commands.ts"))]
    shutil.rmtree(root, ignore_errors=True)
    return {"event": "Build", "case": "b%d" % i, "c": c,
            "observed": {"status": "ok" if p.returncode == 0 else "panic" if p.returncode == 101 else "err",
                         "source": got[0] if len(got) == 1 else ("none" if not got else "+".join(got)), "watched": sorted(watched), "bindings": bool(got)}}


def run(tier, seed):
    t0 = time.time()
    d = C.scratch("x05")
    g = C.run_tlc("Gen_BuildWatch", "Gen_BuildWatch", workers=2, timeout=300)
    if not g.ok:
        raise C.ToolError("BuildWatch table violates InputsWatched: %s" % g.error)
    neg = C.run_tlc("Gen_BuildWatch", "Gen_BuildWatch_neg", workers=2, timeout=300)
    if neg.ok:
        raise C.ToolError("negative control: the as-built table is expected to violate OutputWatched")
    cases = g.json_lines("REPLAY")
    if len(cases) != 30:
        raise C.ToolError("build-watch case generation incomplete: %d" % len(cases))
    with ThreadPoolExecutor(max_workers=8) as ex:
        events = list(ex.map(lambda ic: one(d, ic[0], ic[1]), enumerate(cases)))
    n = len(events)
    bad = json.loads(json.dumps(events[0]))
    bad["case"] = "selftest"
    bad["observed"]["watched"] = [w for w in bad["observed"]["watched"] if w != "project"]
    p = os.path.join(d, "build.ndjson")
    C.write_ndjson(p, events + [bad])
    consumed, mism, r = C.validate_trace("Trace_BuildWatch", "Trace_BuildWatch", p, timeout=600)
    if not consumed:
        raise C.ToolError("build-watch trace not consumed\n" + r.out[-1500:])
    if [m[1] for m in mism if m[1] > n] != [n + 1]:
        raise C.ToolError("binding self-test of Trace_BuildWatch failed")
    real = [m for m in mism if m[1] <= n]
    for m in real[:20]:
        print("EXTRA-VIOLATION check=X05 case=%s %s" % (json.dumps(events[m[1] - 1]["c"]), str(m[4])[:400]))
    os.makedirs(os.path.join(C.WORK, "extra"), exist_ok=True)
    with open(os.path.join(C.WORK, "extra", "X05.json"), "w") as f:
        json.dump({"check": "X05", "cases": n, "rejected": len(real), "wall_s": round(time.time() - t0, 1)}, f, indent=1)
    shutil.rmtree(d, ignore_errors=True)
    return 1 if real else 0


def replay(path, seed):
    return run("quick", seed)
