------------------------------ MODULE Gen_Types ------------------------------
(***************************************************************************)
(* Case generator for the type-translation properties (C05, C10, C18, and  *)
(* the type positions of C02/C07/C09): TLC enumerates Rust type            *)
(* expressions bounded-exhaustively and prints one REPLAY line per         *)
(* expression.  The space is closed under subterms, so the orchestrator    *)
(* can report only minimal rejected expressions.                           *)
(*                                                                         *)
(*   Chains(d): leaf classes wrapped in up to d one-hole contexts          *)
(*              (22 contexts: Option Vec HashSet BTreeSet & Result<T>,     *)
(*              map value/key x {HashMap,BTreeMap}, Result ok/err arm,     *)
(*              the 1-tuple, every slot of 2-,3-,4-tuples).                *)
(*   Pairs    : binary nodes (tuple, Result, map value) whose two          *)
(*              arguments are both composite (depth 2).                    *)
(***************************************************************************)
EXTENDS TypeLang, Json

CONSTANTS MaxDepth,      \* chain length bound
          ExtraLeaves,   \* leaf types over which chains one level deeper than MaxDepth are also enumerated
          WithPairs,     \* BOOLEAN
          LeafMode       \* "plain": README leaf classes;  "mapped": type_mappings sources (C18)

VARIABLE c

\* C18: source names of a type_mappings table (plain, generic with one and with two arguments, and one that is ALSO a project
\* struct) with their configured TypeScript targets.
Mapped(n, b, to) == [k |-> "mapped", n |-> n, base |-> b, to |-> to]
MappedLeaves == {Mapped("PathBuf", "PathBuf", "string"), Mapped("Versioned<Uuid, Utc>", "Versioned", "string"),
                 Mapped("DateTime<Utc>", "DateTime", "string"), Mapped("UserId", "UserId", "number"),
                 Mapped("Flag", "Flag", "boolean"), Mapped("Stamped<chrono::Utc>", "Stamped", "number")}
LeafTypes == IF LeafMode = "mapped" THEN MappedLeaves \cup {Named}
             ELSE {L("str"), L("num"), L("bool"), L("unit"), Named}

RECURSIVE Chains(_)
Chains(d) ==
    IF d = 0 THEN LeafTypes
    ELSE LET prev == Chains(d - 1) IN
         prev \cup {Apply(cx, t) : <<cx, t>> \in {p \in Ctxs \X prev : CtxOK(p[1], p[2])}}

PairArgs == {Apply(cx, t) : cx \in {"opt", "vec", "hmapv", "t2a", "resok"}, t \in {L("num"), Named}}
Pairs == {[k |-> "tup", ts |-> <<x, y>>] : x \in PairArgs, y \in PairArgs}
         \cup {[k |-> "res", a |-> x, b |-> y] : x \in PairArgs, y \in PairArgs}
         \cup {[k |-> "hmap", a |-> L("str"), b |-> [k |-> "tup", ts |-> <<x, y>>]] : x \in PairArgs, y \in PairArgs}

\* one level deeper over a reduced leaf set (quick tiers: every constructor triple over one leaf class, so
\* that "a constructor around a composite that contains the same constructor again" is always present)
RECURSIVE ChainsOver(_, _)
ChainsOver(S, d) ==
    IF d = 0 THEN S
    ELSE LET prev == ChainsOver(S, d - 1) IN
         prev \cup {Apply(cx, t) : <<cx, t>> \in {p \in Ctxs \X prev : CtxOK(p[1], p[2])}}
NoExtra == {}
StrOnly == {L("str")}
StrAndNamed == {L("str"), Named}
OneMapped == {Mapped("PathBuf", "PathBuf", "string")}

CaseSpace == Chains(MaxDepth) \cup (IF WithPairs THEN Pairs ELSE {})
             \cup (IF ExtraLeaves = {} THEN {} ELSE ChainsOver(ExtraLeaves, MaxDepth + 1))

Init == c \in CaseSpace
Next == UNCHANGED c

\* Builder machine for `tlc -simulate': random chains deeper than the exhaustive
\* bound; every prefix of a behaviour is a subterm of its last state.
BInit == c \in LeafTypes
BNext == \E cx \in Ctxs : CtxOK(cx, c) /\ c' = Apply(cx, c)
Emit == IF LeafMode = "mapped"
        THEN PrintT(<<"REPLAY", ToJson([t |-> c, s |-> Subst(c)])>>)
        ELSE PrintT(<<"REPLAY", ToJson(c)>>)
=============================================================================
