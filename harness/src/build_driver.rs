pub fn main(_args: &[String]) -> i32 { eprintln!("not implemented yet"); 2 }
