------------------------------ MODULE ConfigDoc ------------------------------
(***************************************************************************)
(* Configuration (property C19).                                           *)
(*                                                                         *)
(* (A) The settings live under plugins.typegen of a JSON document the tool *)
(*     does not own (tauri.conf.json).  Writing them is a read-modify-     *)
(*     write: everything else must be preserved and reading back must      *)
(*     yield what was written.  Documents are trees                        *)
(*        [k |-> "obj", ms |-> <<[key |-> K, v |-> T], ...>>]              *)
(*        [k |-> "arr", es |-> <<T, ...>>]                                 *)
(*        [k |-> "atom", t |-> "str"|"num"|"bool"|"null", v |-> canon]     *)
(*     whose atoms are opaque canonical strings owned by the harness (exact*)
(*     decimal for numbers), so that `same value' is plain equality.       *)
(* (B) Effective settings obey  flag > file > default.                     *)
(***************************************************************************)
EXTENDS Naturals, Sequences, FiniteSets, TLC

-----------------------------------------------------------------------------
(* (A) documents                                                            *)

\* order-insensitive normal form: objects become functions key -> value
RECURSIVE Norm(_)
Norm(t) ==
    CASE t.k = "obj" ->
            LET keys == {t.ms[i].key : i \in DOMAIN t.ms} IN
            [k |-> "obj",
             m |-> [key \in keys |-> Norm(t.ms[CHOOSE i \in DOMAIN t.ms : t.ms[i].key = key].v)]]
      [] t.k = "arr" -> [k |-> "arr", es |-> [i \in DOMAIN t.es |-> Norm(t.es[i])]]
      [] OTHER -> t

NoDupKeys(t) == t.k = "obj" => Cardinality({t.ms[i].key : i \in DOMAIN t.ms}) = Len(t.ms)

Without(f, key) == [x \in (DOMAIN f) \ {key} |-> f[x]]

\* the document with the tool's own subtree removed (and an emptied `plugins' dropped, so that
\* creating plugins:{typegen} in a document that had none is allowed)
Foreign(n) ==
    IF n.k # "obj" THEN n
    ELSE IF "plugins" \notin DOMAIN n.m THEN n
    ELSE LET p == n.m["plugins"] IN
         IF p.k # "obj" THEN n
         ELSE LET rest == Without(p.m, "typegen") IN
              IF DOMAIN rest = {} THEN [k |-> "obj", m |-> Without(n.m, "plugins")]
              ELSE [k |-> "obj", m |-> [n.m EXCEPT !["plugins"] = [k |-> "obj", m |-> rest]]]

Preserved(before, after) == Foreign(Norm(after)) = Foreign(Norm(before))

HasTypegen(n) == n.k = "obj" /\ "plugins" \in DOMAIN n.m /\ n.m["plugins"].k = "obj"
                 /\ "typegen" \in DOMAIN n.m["plugins"].m

\* settings: a function from setting name to canonical atom string; read back = written
RoundTrips(written, loaded) ==
    \A s \in DOMAIN written : s \in DOMAIN loaded /\ loaded[s] = written[s]

-----------------------------------------------------------------------------
(* (B) precedence                                                           *)

Settings == {"project", "output", "library", "verbose", "force"}
Default == [project |-> "default", output |-> "default", library |-> "none",
            verbose |-> "false", force |-> "false"]

\* flags / file : [Settings -> "absent" | value]
Effective(flags, file) ==
    [s \in Settings |->
        IF s \in {"verbose", "force"}
        THEN (IF flags[s] = "true" \/ file[s] = "true" THEN "true" ELSE "false")
        ELSE IF flags[s] = "D" THEN "default"       \* the flag spells out the built-in default value
        ELSE IF flags[s] # "absent" THEN flags[s]
        ELSE IF file[s] # "absent" THEN file[s]
        ELSE Default[s]]

Supported == {"zod", "none"}
MustReject(flags, file) ==
    LET e == Effective(flags, file) IN e.library \notin Supported \/ e.project = "missing"
=============================================================================
