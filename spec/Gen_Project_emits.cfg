INIT Init
NEXT Next
CONSTANT Mode = "emits"
CONSTANT EmitDepth = 2
INVARIANT Emit
CHECK_DEADLOCK FALSE
