"""C05 - each emitted TypeScript type denotes the JSON shape serde produces.

TLC enumerates Rust type expressions (spec/Gen_Types.tla: leaf classes under up to 2 (quick) / 3
(thorough) of 22 one-hole contexts, binary nodes with composite arguments, plus simulated deeper
chains); every expression is placed at each of the five translation sites of a real project, the
real CLI generates bindings in both modes, the output is parsed, and TLC judges every observation
with ShapeEq(Shape(rust), ShapeOfTs(ts) | ShapeOfZod(zod)) from spec/TypeLang.tla.
Only minimal rejected expressions (all proper subterms accepted at the same site/mode) are reported.
"""
import json
import os
import shutil
import time

from lib import common as C
from lib import rustgen, tsprint, typecases

PROP = "C05"
CHUNK = 40000


def key_of(canon, site, mode):
    return "site=%s mode=%s type=%s" % (site, mode, canon)


def run(tier, seed, only=None):
    t0 = time.time()
    d = C.scratch("c05")
    verdicts = C.Verdicts(PROP)
    types, nex, nsim, g, s = typecases.generate_types(tier, seed, d)
    if only is not None:
        types = only
    rejected_total = [0]
    minimal_total = [0]
    nonmin_total = [0]
    validated_total = [0]

    def judge(types, obs, spelled):
        """TLC judges every observation of one family; minimal rejections become verdicts"""
        events = []
        for o in obs:
            events.append({"event": "Translate", "case": "%d/%s/%s" % (o["idx"], o["site"], o["mode"]),
                           "site": o["site"], "mode": o["mode"], "lang": o["lang"], "rust": o["rust"],
                           "ts": o["ts"], "zod": o["zod"]})
        rejected = set()
        for ci in range(0, len(events), CHUNK):
            part = os.path.join(d, "trace-%s-%d.ndjson" % (spelled or "plain", ci))
            C.write_ndjson(part, events[ci:ci + CHUNK])
            consumed, mism, r = C.validate_trace("Trace_Types", "Trace_Types", part, timeout=3000, heap="12g")
            if not consumed:
                raise C.ToolError("trace not consumed")
            validated_total[0] += len(events[ci:ci + CHUNK])
            for m in mism:
                o = obs[ci + m[1] - 1]
                rejected.add((o["idx"], o["site"], o["mode"]))
                o["gotkind"] = m[4]
            os.remove(part)
        by = {(o["idx"], o["site"], o["mode"]): o for o in obs}
        minimal, nonmin = typecases.minimal_rejections(types, rejected)
        for (idx, site, mode) in minimal:
            o = by[(idx, site, mode)]
            emitted = tsprint.show(o["ts"]) if o["lang"] == "ts" else tsprint.show_expr(o["zod"])
            verdicts.reject(key_of(typecases.head_signature(types[idx]), site, mode), "got=" + str(o.get("gotkind")),
                            "Rust type %s at site %s (mode %s) is emitted as `%s`, which does not denote serde's JSON shape"
                            % (o["spelling"], site, mode, emitted),
                            {"type": types[idx], "site": site, "mode": mode, "rust": o["spelling"], "emitted": emitted,
                             "run_status": o["run_status"], "spelling": spelled or "plain"})
        rejected_total[0] += len(rejected)
        minimal_total[0] += len(minimal)
        nonmin_total[0] += nonmin

    obs, failures, runs = typecases.observe_types(d, types)
    C.log("[c05] %d types, %d observations, %d generator runs (%.0fs)" % (len(types), len(obs), runs, time.time() - t0))
    judge(types, obs, None)
    # the same constructors spelled with their full paths (std::option::Option<..>, ::std::collections::HashMap<..>,
    # std::string::String, crate::N0, anyhow::Result<..>): every type of depth <= 1 and every pair
    qobs = []
    if only is None:
        shallow = [t for t in types if all(not rustgen.subterms(x) for x in rustgen.subterms(t)) or
                   (t["k"] in ("tup", "res", "hmap") and all(len(rustgen.subterms(y)) == 0 for x in rustgen.subterms(t) for y in rustgen.subterms(x))
                    and sum(1 for x in rustgen.subterms(t) if rustgen.subterms(x)) >= 2)]
        rustgen.QUALIFIED_SPELLING = True
        try:
            qobs, qfail, qruns = typecases.observe_types(d, shallow)
        finally:
            rustgen.QUALIFIED_SPELLING = False
        failures += qfail
        runs += qruns
        judge(shallow, qobs, "qualified")
        # ... and laid out the way rustfmt wraps a long type: one argument per line, trailing comma
        rustgen.WRAPPED_LAYOUT = True
        try:
            wobs, wfail, wruns = typecases.observe_types(d, shallow)
        finally:
            rustgen.WRAPPED_LAYOUT = False
        failures += wfail
        runs += wruns
        judge(shallow, wobs, "wrapped")
        qobs = qobs + wobs
    validated = validated_total[0]
    rejected = range(rejected_total[0])
    minimal = range(minimal_total[0])
    nonmin = nonmin_total[0]
    st = selftest(d, obs)
    rc = verdicts.finish()
    samples = [{"rust": o["spelling"], "site": o["site"], "mode": o["mode"],
                "emitted": tsprint.show(o["ts"]) if o["lang"] == "ts" else tsprint.show_expr(o["zod"])}
               for o in obs[:: max(1, len(obs) // 6)][:6]]
    C.write_evidence(PROP, tier, seed, "exploration", {
        "evaluations": len(obs) + len(qobs), "qualified_spelling_evaluations": len(qobs),
        "distinct_nontrivial": len({(o["key"], o["site"], o["mode"]) for o in obs if "<" in o["key"] or "(" in o["key"]}),
        "rule": "one evaluation = one Rust type expression at one translation site in one mode, judged by TLC; "
                "distinct = distinct (abstract type, site, mode); non-trivial = the type has at least one constructor. "
                "Types: TLC enumeration of Gen_Types (%s) = %d expressions + %d simulated chain states (depth<=6)" %
                ("chains<=3 + pairs" if tier == "thorough" else "chains<=2 + pairs", nex, nsim),
        "samples": samples,
        "exhaustive": True,
        "types": len(types),
        "generator_runs": runs,
        "traces_validated_against_impl": validated,
        "rejected_observations": len(rejected),
        "minimal_rejected": len(minimal),
        "nonminimal_rejected_attributed": nonmin,
        "known_findings_matched": len(verdicts.known_hit),
        "generator_failures": failures[:10],
        "binding_selftest": st,
    }, time.time() - t0, assumptions=[
        "the TypeScript-subset parser (lib/tsparse.py) is faithful",
        "Shape follows the README type table; Result<T,E> denotes T at every site as the property states",
        "minimal-case reporting: a new defect visible only in combination with a known-bad subterm is not reported separately",
    ], violations=len(verdicts.violations))
    shutil.rmtree(d, ignore_errors=True)
    return rc


def selftest(d, obs):
    """Binding demonstration: an accepted observation with its emitted type swapped must be rejected."""
    good = None
    for o in obs:
        if o["lang"] == "ts" and o["key"] == "Vec<num>" and o["ts"].get("k") == "arr":
            good = o
            break
    if good is None:
        return {"ran": False}
    ev = lambda o, case, ts: {"event": "Translate", "case": case, "site": o["site"], "mode": o["mode"], "lang": "ts",
                              "rust": o["rust"], "ts": ts, "zod": {"k": "none"}}
    evs = [ev(good, "st-good", good["ts"]),
           ev(good, "st-swapped", {"k": "kw", "n": "number"}),
           ev(good, "st-union", {"k": "union", "ts": [good["ts"], {"k": "kw", "n": "null"}]})]
    p = os.path.join(d, "selftest.ndjson")
    C.write_ndjson(p, evs)
    consumed, mism, _ = C.validate_trace("Trace_Types", "Trace_Types", p)
    rej = sorted(m[3] for m in mism)
    if not consumed or rej != ["st-swapped", "st-union"]:
        raise C.ToolError("binding self-test failed: %s" % rej)
    return {"ran": True, "corruptions_rejected": 2, "uncorrupted_accepted": 1}


def replay(path, seed):
    obj = json.load(open(path))
    t = obj["case"]["type"]
    subs = [t] + rustgen.all_subterms(t)
    return run("quick", seed, only=subs)
