---------------------------- MODULE Trace_InitCmd ----------------------------
(* Trace validation for X04: each event is one real `init` run in a sandbox: the abstract case and what happened.   *)
EXTENDS InitCmd, Json, IOUtils, TLC, Sequences
Rec == ndJsonDeserialize(IOEnv.TRACE)
VARIABLE l
Judge(e) == e.observed = Expected(e.c) /\ Safe(e.c, e.observed)
TraceInit == l = 1
TraceNext ==
    /\ l <= Len(Rec)
    /\ IF Judge(Rec[l]) THEN TRUE ELSE PrintT(<<"MISMATCH", l, "Init", Rec[l].case, <<"expected", Expected(Rec[l].c), "observed", Rec[l].observed>>>>)
    /\ l' = l + 1
TraceSpec == TraceInit /\ [][TraceNext]_l
TraceAccepted ==
    LET d == TLCGet("stats").diameter IN
    IF d - 1 = Len(Rec) THEN PrintT(<<"TRACE-CONSUMED", Len(Rec)>>)
    ELSE PrintT(<<"TRACE-STUCK", d, Len(Rec)>>) /\ FALSE
=============================================================================
