------------------------------- MODULE Project -------------------------------
(***************************************************************************)
(* The abstract project and what must be discovered in it (contract layer  *)
(* for C03, C07, C12; anchors: analysis/ast_cache.rs, command_parser.rs,   *)
(* analysis/mod.rs resolve_types_lazily, generators/mod.rs TypeCollector). *)
(*                                                                         *)
(* A source file  : [pc |-> path class, parsable |-> BOOLEAN,              *)
(*                   items |-> <<item, ...>>]                              *)
(* A fn item      : [k |-> "fn", name, attr, pos]                          *)
(*      attr: how the function is attributed; pos: "top" | "mod" | "impl"  *)
(* A type graph   : types : [name -> [serde |-> BOOLEAN,                    *)
(*                                    fields |-> <<[ctx, to], ...>>]]       *)
(*                  roots : <<[site, ctx, to], ...>>  uses on the public     *)
(*                  surface (param, ret, chan, event) -- or "err" for the   *)
(*                  error arm of a Result, which is NOT part of the surface *)
(***************************************************************************)
EXTENDS Naturals, Sequences, FiniteSets, TLC

AsSet(s) == {s[i] : i \in DOMAIN s}

-----------------------------------------------------------------------------
(* C03: command discovery                                                   *)

\* where a file lies relative to the project path that was given to the tool
\* beside_*: the file's directory also holds a NON-directory entry called .git (the gitdir file of a worktree or
\* submodule) or target (a plain file, a symbolic link): only directories of those names are excluded
AcceptedPathClasses == {"root", "depth1", "depth3", "sibling_targets", "file_named_target",
                        "git_lookalike", "dotdir", "beside_git_file", "beside_target_file", "beside_target_link",
                        \* module files whose NAME is special to cargo somewhere else (build.rs is a build script only
                        \* next to Cargo.toml, mod.rs / lib.rs / main.rs are ordinary modules of the scanned tree)
                        "module_named_build", "module_named_mod", "module_named_main"}
RejectedPathClasses == {"under_target", "under_target_deep", "under_git", "non_rs", "rs_uppercase_ext"}

FileAccepted(f) == f.pc \in AcceptedPathClasses /\ f.parsable

\* attribute spellings that make a top-level function a Tauri command
CommandAttrs == {"tauri_command", "command", "tauri_command_args", "command_args",
                 "tauri_command_after_other", "tauri_command_before_other", "tauri_command_with_doc",
                 \* ... standing after / between attributes whose paths have two and three segments themselves
                 "tauri_command_after_qualified", "command_after_qualified_args", "tauri_command_between_qualified"}
\* spellings that do not
OtherAttrs == {"none", "other_command", "tauri_other", "command_in_doc_only", "qualified_only"}

IsCommand(it) == it.k = "fn" /\ it.pos = "top" /\ it.attr \in CommandAttrs

Commands(files) ==
    UNION { {f.items[i].name : i \in {j \in DOMAIN f.items : IsCommand(f.items[j])}}
            : f \in {g \in AsSet(files) : FileAccepted(g)} }

\* wrappers : <<[fn |-> exported function name, invoke |-> first argument of invoke], ...>>
C03_Holds(files, wrappers) ==
    LET invoked == {wrappers[i].invoke : i \in DOMAIN wrappers} IN
    /\ invoked = Commands(files)                                   \* one for each, none for others
    /\ Cardinality(invoked) = Len(wrappers)                         \* exactly one each
    /\ Cardinality({wrappers[i].fn : i \in DOMAIN wrappers}) = Len(wrappers)

-----------------------------------------------------------------------------
(* C07: reachable serde types                                               *)

\* how a type's derive list is spelled; what matters is whether serde's Serialize or Deserialize is among the
\* derived traits, however the path is written and whatever else is derived
SerdeDerives == {"both", "both_with_others", "qualified", "abs_qualified", "ser_only", "de_only",
                 "second_attribute", "qualified_among_others", "mixed_qualified"}
NonSerdeDerives == {"others_only", "no_derive", "derive_empty"}
DerivesSerde(kind) == kind \in SerdeDerives

SurfaceSites == {"param", "ret", "chan", "event"}

RootNames(roots) == {roots[i].to : i \in {j \in DOMAIN roots : roots[j].site \in SurfaceSites}}

\* Result<T, E> is rendered as T alone at every site (C05), so a type that occurs only in the error
\* arm of a Result is not referenced by any generated declaration
OnWire(ctx) == ctx # "reserr"

RECURSIVE ReachTypes(_, _)
ReachTypes(types, S) ==
    LET next == S \cup UNION { {types[n].fields[i].to : i \in {j \in DOMAIN types[n].fields : OnWire(types[n].fields[j].ctx)}}
                               : n \in {m \in S : m \in DOMAIN types /\ types[m].serde} }
    IN IF next = S THEN S ELSE ReachTypes(types, next)

\* exactly the project-defined serde types reachable from the public surface
Reachable(types, roots) ==
    {n \in ReachTypes(types, RootNames(roots)) : n \in DOMAIN types /\ types[n].serde}

C07_Holds(types, roots, declared) ==
    /\ AsSet(declared) = Reachable(types, roots)
    /\ Cardinality(AsSet(declared)) = Len(declared)        \* each exactly once

\* dependency edges between emitted types (for C09 / TopoSort)
TypeDeps(types, n) == {types[n].fields[i].to : i \in {j \in DOMAIN types[n].fields : OnWire(types[n].fields[j].ctx)}} \cap DOMAIN types

-----------------------------------------------------------------------------
(* Beyond the listed properties (X01): the dependency visualisation agrees with the analysis.              *)
(* dependency-graph.dot has one green node per *resolved* type and one edge per recorded dependency.        *)
(* Intended: nodes = the emitted types (Reachable).  As built (deviation VizShowsErrorArmTypes): types       *)
(* that are reachable only through the error arm of a Result are resolved and drawn although no binding    *)
(* mentions them, so Reachable \subseteq nodes \subseteq ReachableAll; edges are exact over the drawn nodes, *)
(* an edge may additionally point at a name that is not drawn (a non-serde field type).                    *)
AllRootNames(roots) == {roots[i].to : i \in DOMAIN roots}
RECURSIVE ReachTypesAll(_, _)
ReachTypesAll(types, S) ==
    LET next == S \cup UNION { {types[n].fields[i].to : i \in DOMAIN types[n].fields}
                               : n \in {m \in S : m \in DOMAIN types /\ types[m].serde} }
    IN IF next = S THEN S ELSE ReachTypesAll(types, next)
ReachableAll(types, roots) == {n \in ReachTypesAll(types, AllRootNames(roots)) : n \in DOMAIN types /\ types[n].serde}
AllDeps(types, n) == {types[n].fields[i].to : i \in DOMAIN types[n].fields}

X01_Holds(types, roots, tnodes, tedges, cedges) ==
    LET R  == Reachable(types, roots)
        RA == ReachableAll(types, roots)
        N  == AsSet(tnodes)
    IN /\ R \subseteq N /\ N \subseteq RA
       /\ Cardinality(N) = Len(tnodes)
       /\ \A e \in AsSet(tedges) : e[1] \in N
       /\ {e \in AsSet(tedges) : e[2] \in N} = {e \in N \X N : e[2] \in AllDeps(types, e[1])}
       /\ \A e \in AsSet(cedges) : e[2] \in N

-----------------------------------------------------------------------------
(* C12: listeners                                                            *)

\* emits : <<[name |-> event name, receiver |-> class, frames |-> <<enclosing frames>>, placed |-> tail form, lit |-> BOOLEAN]>>
DocumentedReceivers == {"app", "window", "webview", "self_app", "self_window", "method_result", "global_method"}
\* The call sits in a tail form (`placed`) inside a path of enclosing frames (outermost first).  Documented by
\* the analyser / the property: expression statement (with or without the trailing semicolon), let initialiser,
\* if/else branches (incl. `else if` chains and `if let`), match arms, loop/while/for bodies, nested (labelled)
\* blocks, under ? and .await, as receiver of .unwrap()/.ok().  A closure body, a nested fn, an async block and an
\* unsafe block are not clearly "a top-level function body at any block nesting", and `return e` / a condition
\* are not listed: emits there are neither required nor forbidden.
DocumentedPlacements == {"stmt", "let_init", "match_arm_expr", "try_op", "await", "unwrap_recv", "ok_recv", "tail_expr"}
DocumentedFrames == {"if_then", "if_else", "else_if", "else_if_else", "if_let", "match_arm_block", "loop",
                     "labeled_loop", "while", "while_let", "for", "nested_block", "labeled_block",
                     "let_init_if", "let_init_match"}
Required(em) == /\ em.receiver \in DocumentedReceivers
                /\ em.placed \in DocumentedPlacements
                /\ \A i \in DOMAIN em.frames : em.frames[i] \in DocumentedFrames
                /\ em.lit
EventNames(emits) == {emits[i].name : i \in {j \in DOMAIN emits : Required(emits[j])}}
OptionalNames(emits) == {emits[i].name : i \in {j \in DOMAIN emits : ~Required(emits[j]) /\ emits[j].lit}}
=============================================================================
