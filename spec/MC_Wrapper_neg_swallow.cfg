CONSTANT Variant = "swallow"
SPECIFICATION Spec
INVARIANT ProtocolHolds
CHECK_DEADLOCK FALSE
