"""C02 - generated modules are closed: every name resolves, none is declared twice.

Inputs  : (a) the TLC-enumerated type graphs (Gen_Project) - project types under every constructor context at
              every site, in both modes;
          (b) TLC-enumerated type expressions (Gen_Types, depth <= 1 quick / 2 thorough) with a named type at
              every structural position of every translation site;
          (c) TLC-enumerated emit cases packed so that the same event is emitted from several places, and a
              feature project (enums, channels, optional parameters, channel-only commands).
Judge   : Trace_Project.tla event Modules: Output!Closed (type references resolve to a local declaration, an
          import or a TypeScript built-in; `types.X` resolves to an export of types.ts in the right declaration
          space), Output!NoDuplicateExports, Output!IndexMatches (index re-exports exactly the files written).
"""
import json
import os
import random
import re
import shutil
import time

from lib import common as C
from lib import graphcases as G
from lib import observe, rustgen, typecases
from lib import projcases as PC
from lib.checks import c10

PROP = "C02"


def run(tier, seed):
    t0 = time.time()
    d = C.scratch("c02")
    verdicts = C.Verdicts(PROP)
    events = []
    # (a) graphs
    cases, total = G.generate(tier, seed)

    def compiles(c):
        # a serde type with a field of a non-serde type, or a command taking a non-serde type, is not a program rustc
        # accepts: such graphs exist for C07 (nothing unreachable or non-serde is declared) and say nothing about closure
        for n in c["edges"]:
            for e in c["edges"][n]:
                if c["serde"].get(n) and not c["serde"].get(e["to"], True):
                    return False
        return all(c["serde"].get(r["to"], True) for r in c["roots"])
    cases = [c for c in cases if compiles(c)]
    if tier == "quick":
        # a mix of plain three-node graphs and the edge-context / root-site cases
        g3 = [c for c in cases if len(c["nodes"]) == 3 and not c.get("nodekind", {}).get("A") and len(c.get("place", {})) <= 1 and not c.get("derive", {}).get("A")][:150]
        ge = [c for c in cases if len(c["nodes"]) == 4]
        # plus the families that vary how types are written and where they live
        fam = [c for c in cases if c.get("nodekind", {}).get("A") or len(c.get("place", {})) > 1 or c.get("derive", {}).get("A")]
        cases = g3 + ge + fam[::3]
    reach, modules = G.observe(d, cases)
    events.extend(modules)
    # (b) named types at every structural position
    types, nex, nsim, g, s = typecases.generate_types(tier, seed, d, cfg="Gen_Types_d2", simulate=False, min_cases=50)
    types = [t for t in types if "N" in rustgen.canon(t)]
    named = [(i, rustgen.name_leaves(t)[0]) for i, t in enumerate(types)]
    for bi in range(0, len(named), 40):
        for mode in ("none", "zod"):
            # no keep-alive command: a named type must be declared because the case itself reaches it
            src, _ = rustgen.types_project(named[bi:bi + 40], keep_named=False)
            b, res, texts = PC.run_project(d, "t%d-%s" % (bi, mode), {"src/lib.rs": src}, mode=mode)
            if b:
                ev = PC.modules_event(b, texts, "types%d-%s" % (bi, mode))
                ev["mode"] = mode
                ev["pack"] = [rustgen.canon(types[i]) for i, _ in named[bi:bi + 40]]
                events.append(ev)
    # (c') event names whose derived listener names collide (TLC: every name over [aB1-/:_] up to length 3), and names
    # whose own derived name equals the numbered form another collision is given
    name_cases = C.run_tlc("Gen_Names", "Gen_Names_events", workers=2, timeout=600).json_lines("REPLAY")
    if len(name_cases) < 390:
        raise C.ToolError("event name generation incomplete: %d" % len(name_cases))
    names = ["".join(c["name"]) for c in name_cases]
    for base in ("sync-done", "a:b/c"):
        alt = [base, base.replace("-", "_").replace(":", "_").replace("/", "_"), base.replace("-", ":").replace("/", "-")]
        names += alt + [base + "-2", base + "_2", base + "2", base + "-3", base + ":2", alt[1] + "_3"]
    # neighbours in this order derive the same (or nearly the same) listener name, so colliding names share a pack
    names = sorted(set(names), key=lambda n: (re.sub(r"[^a-z0-9]", "", n.lower()), n))
    std = {"receiver": "app", "placed": "ok_recv", "frames": [], "method": "emit", "lit": True}
    for bi in range(0, len(names), 80):
        src = PC.EMIT_PRELUDE + "use tauri::Emitter;\n"
        for j, nm in enumerate(names[bi:bi + 80]):
            src += PC.emit_fn(7000 + bi + j, std, name=nm)
        for mode in ("none", "zod"):
            b, res, texts = PC.run_project(d, "evnames%d-%s" % (bi, mode), {"src/lib.rs": src}, mode=mode)
            if b:
                ev = PC.modules_event(b, texts, "event-names%d-%s" % (bi, mode))
                ev["mode"] = mode
                events.append(ev)
    # (c) the same event from several places + feature project
    multi = PC.EMIT_PRELUDE + "use tauri::Emitter;\n"
    k = 0
    for name, n in (("twice", 2), ("thrice", 3), ("once", 1)):
        for j in range(n):
            multi += PC.emit_fn(9000 + k, {"receiver": "app", "placed": "ok_recv", "frames": [], "method": "emit", "lit": True}, name="dup-" + name)
            k += 1
    for mode in ("none", "zod"):
        b, res, texts = PC.run_project(d, "multi-" + mode, {"src/lib.rs": multi, "src/other.rs": multi.replace("emitter_", "other_emitter_").replace("anchor_cmd", "anchor2").replace("pub struct Ctx", "pub struct Ctx2").replace("impl Ctx", "impl Ctx2").replace("&Ctx", "&Ctx2").replace("fn helper", "fn helper2")}, mode=mode)
        if b:
            ev = PC.modules_event(b, texts, "same-event-twice-" + mode)
            ev["mode"] = mode
            events.append(ev)
        b, res, texts = PC.run_project(d, "feat-" + mode, {"src/lib.rs": c10.FEATURE_SRC}, mode=mode)
        if b:
            ev = PC.modules_event(b, texts, "feature-" + mode)
            ev["mode"] = mode
            events.append(ev)
    # (d) project type names that stand in every textual relation - short of equality - to the names the generator
    # derives (<Cmd>Params, <Name>Schema, listener names): super-string on either side, proper prefix / suffix,
    # the bare suffix words; commands with values, with channels only and with both
    for mode in ("none", "zod"):
        b, res, texts = PC.run_project(d, "coincide-" + mode, {"src/lib.rs": name_coincidence_project()}, mode=mode)
        if not b:
            raise C.ToolError("name-coincidence project produced no bindings (%s): %s" % (mode, res.err[-400:]))
        ev = PC.modules_event(b, texts, "name-coincidences-" + mode)
        ev["mode"] = mode
        events.append(ev)
    # (e) every payload form whose type is syntactically evident (C12's list): the name the listener refers to resolves
    from lib.checks import c12
    # (forms with a map or a tuple are left to the graph cases: a project type inside Record<..> / [..] is the known
    # finding C02-unprefixed-nested and is identified there by the generated type names)
    psrc, _ = c12.payload_project([f for f in c12.PAYLOAD_FORMS if f[4] != "unknown" and '"hmap"' not in json.dumps(f[4]) and '"tup"' not in json.dumps(f[4])])
    for mode in ("none", "zod"):
        b, res, texts = PC.run_project(d, "payloads-" + mode, {"src/lib.rs": psrc}, mode=mode)
        if not b:
            raise C.ToolError("payload-forms project produced no bindings (%s): %s" % (mode, res.err[-400:]))
        ev = PC.modules_event(b, texts, "payload-forms-" + mode)
        ev["mode"] = mode
        events.append(ev)
    evs = [{k: v for k, v in e.items() if k not in ("pack",)} for e in events]
    mism = PC.validate_project_trace(d, evs, "c02", chunk=30)
    for idx, why in mism:
        ev = events[idx]
        w = why if isinstance(why, list) else [str(why)]
        unresolved = str(w[1]) if len(w) > 1 else ""
        dups = str(w[3]) if len(w) > 3 else ""
        idxs = str(w[5:9]) if len(w) > 5 else ""
        unp = str(w[9]) if len(w) > 9 else ""
        for (f, n) in sorted(set(re.findall(r'<<"(\w+)", "([^"]*)">>', unp)))[:50]:
            verdicts.reject("mode=%s file=%s unparsable=%s" % (ev.get("mode"), f, re.sub(r"\d+", "#", n)), "unparsable declaration",
                            "%s.ts (%s mode): declaration %s cannot be parsed, so what it refers to cannot resolve (project %s)" % (f, ev.get("mode"), n, ev["case"]),
                            {"case": ev["case"], "file": f, "decl": n})
        for (f, decl, q, n) in sorted(set(re.findall(r'<<"(\w+)", "([\w:<>.?]+)", "(\w*)", "(\w+)">>', unresolved)))[:400]:
            kn = re.sub(r"\d+", "#", n)
            kd = re.sub(r"\d+", "#", decl)
            site = kd[:2] if re.match(r"[a-zA-Z]#", kd) else kd
            verdicts.reject("mode=%s file=%s unresolved=%s%s in=%s" % (ev.get("mode"), f, (q + ".") if q else "", kn, site), "unresolved",
                            "%s.ts (%s mode): declaration %s refers to %s%s which does not resolve (project %s)" % (f, ev.get("mode"), decl, (q + ".") if q else "", n, ev["case"]),
                            {"case": ev["case"], "file": f, "decl": decl, "ref": [q, n]})
        for (f, n) in sorted(set(re.findall(r'<<"(\w+)", "(\w+)">>', dups))):
            verdicts.reject("mode=%s file=%s duplicate=%s" % (ev.get("mode"), f, re.sub(r"\d+", "#", n)), "duplicate export",
                            "%s.ts (%s mode) exports %s twice (project %s)" % (f, ev.get("mode"), n, ev["case"]), {"case": ev["case"]})
        if not unresolved.strip("{} ") and not dups.strip("{} ") and not unp.strip("{} "):
            verdicts.reject("mode=%s index" % ev.get("mode"), idxs[:120], "index.ts does not re-export exactly the written files: %s" % idxs, {"case": ev["case"]})
    rc = verdicts.finish()
    ndecl = sum(len(m["decls"]) for e in events for m in e["mods"].values())
    C.write_evidence(PROP, tier, seed, "exploration", {
        "evaluations": len(events),
        "distinct_nontrivial": ndecl,
        "rule": "one evaluation = one generated output directory (4 parsed modules) judged as a whole; distinct_nontrivial counts the "
                "declarations whose references were resolved; inputs: %d type graphs, %d type expressions with a named type at each structural "
                "position x 5 sites, repeated-event and feature projects, both modes" % (len(cases), len(types)),
        "samples": [{"case": e["case"], "files": sorted(e["mods"])} for e in events[:: max(1, len(events) // 5)][:5]],
        "traces_validated_against_impl": len(events),
        "known_findings_matched": len(verdicts.known_hit),
        "exhaustive": False,
    }, time.time() - t0, assumptions=["TypeScript built-in type names are a fixed list (Output!TsBuiltinTypes)",
                                      "member references found inside function bodies may resolve in either declaration space"],
        violations=len(verdicts.violations))
    shutil.rmtree(d, ignore_errors=True)
    return rc


def name_coincidence_project():
    src = [PC.PRELUDE, "use tauri::Emitter;\n"]
    tys = []
    cmds = (("upload", "path: String, opts: %s"), ("stream", "on_data: Channel<%s>"), ("mixed_up", "id: u32, extra: %s, on_tick: Channel<u8>"))
    for cmd, _ in cmds:
        pas = "".join(w.capitalize() for w in cmd.split("_"))
        tys += ["Bulk%sParams" % pas, "%sParamsV2" % pas, "%sParam" % pas, "%sParamsSchemaX" % pas, "My%sParamsSchema" % pas, pas, "%sSchemas" % pas,
                "%sPara" % pas, "X%s" % pas]
    tys += ["Params", "Schema", "ParamsSchema", "Listener", "OnJobDone", "OnJobDoneListener", "JobDone", "Types", "Invoke"]
    tys = sorted(set(tys))
    for t in tys:
        src.append("#[derive(Serialize, Deserialize, Clone)]\npub struct %s {\n    pub v: u8,\n}\n" % t)
    # every type used by some command, and each command's own parameter of a coinciding type
    per = {c: [t for t in tys if "".join(w.capitalize() for w in c.split("_")) in t] for c, _ in cmds}
    for cmd, sig in cmds:
        for j, t in enumerate(per[cmd] or ["Params"]):
            src.append("#[tauri::command]\npub fn %s%s(%s) -> Option<%s> { None }\n" % (cmd, "" if j == 0 else "_%d" % j, sig % t, t))
    src.append("#[tauri::command]\npub fn uses_rest(%s) {}\n" % ", ".join("a%d: %s" % (i, t) for i, t in enumerate(tys)))
    src.append("pub fn emits(app: tauri::AppHandle, j: JobDone, o: OnJobDone) {\n    app.emit(\"job-done\", j).ok();\n    app.emit(\"on-job-done\", o).ok();\n}\n")
    return "\n".join(src)


def replay(path, seed):
    return run("quick", seed)
