"""C20 - dependency ordering routines are correct on every graph.

Model checking : spec/TopoSort.tla (DFS step machine, every HashSet iteration order) and
                 spec/Kahn.tla against the contract operators of spec/DepGraph.tla.
Conformance    : (a) TLC enumerates every initial state (graph x requested set) -> REPLAY lines ->
                     real TypeDependencyGraph / DependencyResolver through their public API;
                 (b) the returned values are validated by TLC (Trace_TopoSort) against the same
                     contract operators.  A hang/stack overflow of the real routine is a violation.
"""
import json
import os
import random
import shutil
import subprocess
import time

from lib import common as C

PROP = "C20"


def _harness(args, out, timeout):
    """Run tth topo; returns (stats, crashed_case)"""
    try:
        p = C.sh([C.TTH, "topo", "--out", out] + args, timeout=timeout)
    except subprocess.TimeoutExpired:
        last = open(out + ".progress").read().strip().splitlines()[-1:] if os.path.exists(out + ".progress") else []
        return None, ("timeout", last[0] if last else "?")
    if p.returncode != 0:
        last = open(out + ".progress").read().strip().splitlines()[-1:] if os.path.exists(out + ".progress") else []
        return None, ("exit %d" % p.returncode, last[0] if last else "?")
    return json.loads(p.stdout.decode().strip().splitlines()[-1]), None


def _split(path, n):
    """split ndjson into chunks of <= n lines"""
    parts = []
    with open(path) as f:
        buf = []
        for line in f:
            buf.append(line)
            if len(buf) >= n:
                pp = "%s.part%d" % (path, len(parts))
                open(pp, "w").writelines(buf)
                parts.append(pp)
                buf = []
        if buf:
            pp = "%s.part%d" % (path, len(parts))
            open(pp, "w").writelines(buf)
            parts.append(pp)
    return parts


def _validate(path, verdicts, samples):
    """Validate a trace file in chunks; returns number of records validated."""
    total = 0
    for part in _split(path, 150000):
        lines = open(part).read().splitlines()
        consumed, mism, r = C.validate_trace("Trace_TopoSort", "Trace_TopoSort", part, timeout=3000)
        if not consumed:
            raise C.ToolError("trace not consumed: " + part)
        total += len(lines)
        if not samples and lines:
            samples.extend(json.loads(x) for x in lines[:2])
        for m in mism:
            ev = json.loads(lines[m[1] - 1])
            if ev["event"] == "TopoCall":
                key = "topo deps=%s requested=%s" % (json.dumps(ev["deps"], sort_keys=True), json.dumps(sorted(ev["requested"])))
                obs = "result=%s" % json.dumps(ev["result"])
            else:
                key = "kahn nodes=%s uses=%s" % (json.dumps(sorted(ev["nodes"])), json.dumps(ev["uses"]))
                obs = "ok=%s order=%s" % (ev["ok"], json.dumps(ev["order"]))
            verdicts.reject(key, obs, "ordering routine returned a result the contract (DepGraph.tla) rejects", ev)
        os.remove(part)
    return total


def _selftest(path, d):
    """Binding demonstration: corrupting one recorded field must be rejected by the trace spec."""
    lines = open(path).read().splitlines()
    picked = None
    for ln in lines:
        ev = json.loads(ln)
        if ev["event"] == "TopoCall" and len(ev["result"]) >= 2:
            a, b = ev["result"][-1], ev["result"][0]
            # swap only when an acyclic edge a->b makes the order matter
            if b in ev["deps"].get(a, []) and a not in _reach(ev["deps"], b):
                picked = ev
                break
    if not picked:
        return {"ran": False}
    bad1 = dict(picked)
    bad1["result"] = list(reversed(picked["result"]))
    bad1["case"] = "selftest-reversed"
    bad2 = dict(picked)
    bad2["result"] = picked["result"][:-1]
    bad2["case"] = "selftest-dropped"
    good = dict(picked)
    good["case"] = "selftest-good"
    tp = os.path.join(d, "selftest.ndjson")
    C.write_ndjson(tp, [good, bad1, bad2])
    consumed, mism, _ = C.validate_trace("Trace_TopoSort", "Trace_TopoSort", tp)
    rejected = sorted(m[3] for m in mism)
    ok = consumed and rejected == ["selftest-dropped", "selftest-reversed"]
    if not ok:
        raise C.ToolError("binding self-test failed: corrupted records were not rejected exactly: %s" % rejected)
    return {"ran": True, "corruptions_rejected": 2, "uncorrupted_accepted": 1}


def _reach(deps, x):
    seen = set()
    todo = list(deps.get(x, []))
    while todo:
        y = todo.pop()
        if y in seen:
            continue
        seen.add(y)
        todo.extend(deps.get(y, []))
    return seen


def run(tier, seed):
    t0 = time.time()
    d = C.scratch("c20")
    verdicts = C.Verdicts(PROP)
    states = 0
    transitions = 0
    mc = []
    # ---- model checking of the as-built step machines against the contract
    plans = [("TopoSort", "MC_TopoSort_3", 8, 600), ("Kahn", "MC_Kahn_3", 8, 600)]
    if tier == "thorough":
        plans += [("Kahn", "MC_Kahn_4", 12, 3000), ("TopoSort", "MC_TopoSort_4", 14, 7200)]
    for module, cfg, workers, to in plans:
        r = C.run_tlc(module, cfg, workers=workers, timeout=to, coverage=(cfg.endswith("_3")), heap="24g")
        if not r.ok:
            # the as-built model violates the contract: report the model counterexample as drift/tool error;
            # it is NOT a verdict about the code until replayed (design section 5)
            raise C.ToolError("model checking %s failed: %s\n%s" % (cfg, r.error, r.out[-2500:]))
        zero = r.coverage_zero()
        states += r.distinct
        transitions += r.generated
        mc.append({"config": cfg, "distinct_states": r.distinct, "states_generated": r.generated,
                   "depth": r.depth, "wall_s": round(r.wall, 1), "actions_never_taken": zero})
        C.log("[c20] %s: %d distinct states, %.1fs" % (cfg, r.distinct, r.wall))
    # ---- spec -> implementation: TLC-enumerated cases replayed into the real routines
    g = C.run_tlc("Gen_TopoSort", "Gen_TopoSort_3", workers=4, timeout=600)
    cases = g.json_lines("REPLAY")
    if len(cases) < 1000:
        raise C.ToolError("case generation produced too few cases: %d\n%s" % (len(cases), g.out[-2000:]))
    cases_path = os.path.join(d, "cases.ndjson")
    C.write_ndjson(cases_path, cases)
    total_calls = 0
    total_cases = 0
    traces = []
    jobs = [(["--cases", cases_path, "--reps", "12"], "tlc3.ndjson")]
    nrand = 3000 if tier == "quick" else 60000
    jobs.append((["--random", str(nrand), "--max-nodes", "12", "--seed", str(seed), "--reps", "4"], "random.ndjson"))
    if tier == "thorough":
        for c in range(8):
            jobs.append((["--enumerate", "4", "--chunk", "%d/8" % c, "--reps", "8"], "enum4-%d.ndjson" % c))
    else:
        # a seeded slice of the 4-node space in the quick tier (1/64 of the graphs)
        rnd = random.Random(seed)
        jobs.append((["--enumerate", "4", "--chunk", "%d/64" % rnd.randrange(64), "--reps", "6"], "enum4-slice.ndjson"))
    procs = []
    for a, name in jobs:
        out = os.path.join(d, name)
        stats, crash = _harness(a, out, timeout=3000)
        if crash:
            verdicts.reject("crash " + crash[1], crash[0],
                            "ordering routine did not return (hang, stack overflow or abort) on case %s" % crash[1],
                            {"args": a, "progress_last": crash[1]})
            continue
        total_calls += stats["calls"]
        total_cases += stats["cases"]
        traces.append(out)
    # ---- implementation -> spec: validate every distinct recorded result
    samples = []
    validated = 0
    for tpath in traces:
        validated += _validate(tpath, verdicts, samples)
    st = _selftest(traces[0], d) if traces else {"ran": False}
    rc = verdicts.finish()
    C.write_evidence(PROP, tier, seed, "model_checking", {
        "states": states,
        "transitions": transitions,
        "traces_validated_against_impl": validated,
        "samples": samples + cases[:1],
        "model_checking_runs": mc,
        "impl_cases": total_cases,
        "impl_calls": total_calls,
        "exhaustive": True,
        "rule": "model: every digraph on N labelled nodes (incl. self-loops) x every non-empty requested set x every "
                "HashSet iteration order (N=3 quick, N=3 and 4 thorough); Kahn: every multigraph (multiplicity<=2 at N=3, "
                "<=1 at N=4) x every initial-queue order. impl: every TLC-enumerated 3-node case, "
                + ("all 65 536 4-node graphs x 15 requested sets" if tier == "thorough" else "a seeded 1/64 slice of the 4-node graphs")
                + ", random graphs up to 12 nodes; each call repeated under fresh hash seeds; distinct (case,result) pairs validated by TLC",
        "binding_selftest": st,
    }, time.time() - t0, assumptions=[
        "TLC and the CommunityModules Json reader are trusted",
        "the harness builds graphs only through the public API (add_dependency/add_dependencies/add_node)",
    ], violations=len(verdicts.violations))
    shutil.rmtree(d, ignore_errors=True)
    return rc


def replay(path, seed):
    obj = json.load(open(path))
    ev = obj["case"]
    d = C.scratch("c20r")
    cp = os.path.join(d, "case.ndjson")
    if "deps" in ev:
        case = {"kind": "topo", "nodes": ev["nodes"], "deps": ev["deps"], "requested": ev["requested"]}
    else:
        case = {"kind": "kahn", "nodes": ev["nodes"], "uses": ev["uses"]}
    C.write_ndjson(cp, [case])
    out = os.path.join(d, "out.ndjson")
    stats, crash = _harness(["--cases", cp, "--reps", "64"], out, 600)
    if crash:
        print("VIOLATION property=%s replay=%s" % (PROP, path))
        return 1
    v = C.Verdicts(PROP)
    _validate(out, v, [])
    rc = v.finish()
    shutil.rmtree(d, ignore_errors=True)
    return rc
