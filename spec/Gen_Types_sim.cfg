INIT BInit
NEXT BNext
CONSTANTS MaxDepth = 0
 LeafMode = "plain"
 WithPairs = FALSE
INVARIANT Emit
CHECK_DEADLOCK FALSE
