----------------------------- MODULE Gen_InitCmd -----------------------------
(* Case generator for X04; also checks the model against its own safety statement.                                *)
EXTENDS InitCmd, Json, TLC
VARIABLE c
Cases == [output : Outputs, exists : BOOLEAN, force : BOOLEAN, library : {"absent", "zod", "none", "bogus"}]
Init == c \in Cases
Next == UNCHANGED c
ModelSafe == Safe(c, Expected(c))
Emit == PrintT(<<"REPLAY", ToJson(c)>>)
=============================================================================
