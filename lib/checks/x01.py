"""X01 (beyond the listed properties) - the dependency visualisation agrees with the emitted types.

`--visualize-deps` writes dependency-graph.dot / .txt next to the bindings.  Contract (spec/Project.tla X01_Holds):
one green node per emitted type (exactly Project!Reachable, once each), every edge starts at an emitted type, the
edges between emitted types are exactly Project!TypeDeps, and command nodes point at emitted types only.
TLC enumerates the type graphs (Gen_Project: all digraphs on three types x root sets, edge contexts x root sites,
file layouts); the real CLI generates each pack with the flag on; the parsed DOT file is judged by Trace_Project
(event Viz).  Not registered in MANIFEST.json: it decides none of the 20 listed properties; run with
`bin/check X01`.  A rejection is reported as `EXTRA-VIOLATION` and exit status 1.
"""
import json
import os
import re
import shutil
import time
from concurrent.futures import ThreadPoolExecutor

from lib import common as C
from lib import graphcases as G
from lib import projcases as PC
from lib import runner, rustgen

PROP = "X01"
NODE = re.compile(r'^\s*"([^"]+)"\s*\[color=(\w+)')
EDGE = re.compile(r'^\s*"([^"]+)"\s*->\s*"([^"]+)"\s*(\[label="(\w+)"\])?;')


def parse_dot(text):
    tnodes, cnodes, tedges, cedges = [], [], [], []
    for line in text.split("\n"):
        m = EDGE.match(line)
        if m:
            (cedges if m.group(4) else tedges).append([m.group(1), m.group(2)])
            continue
        m = NODE.match(line)
        if m:
            (tnodes if m.group(2) == "green" else cnodes).append(m.group(1))
    return tnodes, cnodes, tedges, cedges


def run(tier, seed):
    t0 = time.time()
    d = C.scratch("x01")
    cases, total = G.generate(tier, seed)
    indexed = list(enumerate(cases))
    packs = [indexed[i:i + G.PACK] for i in range(0, len(indexed), G.PACK)]
    jobs = [(pi, pk, mode) for pi, pk in enumerate(packs) for mode in ("none", "zod")]

    def work(job):
        pi, pk, mode = job
        head = PC.PRELUDE + "use tauri::Emitter;\n"
        src = [head]
        files = {}
        meta = []
        for i, g in pk:
            parts, types, roots, pre = PC.graph_source(i, g)
            if g.get("place") and len(g["place"]) > 1:
                for slot, text in parts.items():
                    files[PC.SLOT_PATHS[slot] % i] = head + text
            else:
                src.append("\n".join(parts[k] for k in sorted(parts)))
            meta.append((i, types, roots, pre))
        files["src/lib.rs"] = "\n".join(src) + "\n#[tauri::command]\npub fn pack_anchor() {}\n"
        root = os.path.join(d, "x%d-%s" % (pi, mode))
        rustgen.write_project(root, files)
        r = runner.generate(root, mode=mode, visualize=True)
        texts = runner.read_outputs(os.path.join(root, "out"))
        shutil.rmtree(root, ignore_errors=True)
        dot = texts.get("dependency-graph.dot")
        evs = []
        if dot is None:
            return [{"event": "Viz", "case": "pack%d/%s" % (pi, mode), "types": {}, "roots": [], "tnodes": ["<no dot file: %s>" % r.status], "tedges": [], "cedges": []}]
        tn, cn, te, ce = parse_dot(dot)
        for i, types, roots, pre in meta:
            pat = re.compile(r"^%s[A-Z]$" % re.escape(pre))
            cpat = re.compile(r"^g%d_r\d+$" % i)
            evs.append({"event": "Viz", "case": "g%d/%s" % (i, mode), "types": types, "roots": roots,
                        "tnodes": [n for n in tn if pat.match(n)],
                        "tedges": [e for e in te if pat.match(e[0]) or pat.match(e[1])],
                        "cedges": [e for e in ce if cpat.match(e[0])]})
        return evs
    events = []
    with ThreadPoolExecutor(max_workers=10) as ex:
        for evs in ex.map(work, jobs):
            events.extend(evs)
    mism = PC.validate_project_trace(d, events, "x01", chunk=2500)
    bad = 0
    seen = set()
    for idx, why in mism:
        ev = events[idx]
        key = re.sub(r"G\d+", "G", str(why))[:300]
        if key in seen:
            continue
        seen.add(key)
        bad += 1
        if bad <= 20:
            print("EXTRA-VIOLATION check=X01 case=%s %s" % (ev["case"], str(why)[:400]))
    os.makedirs(os.path.join(C.WORK, "extra"), exist_ok=True)
    with open(os.path.join(C.WORK, "extra", "X01.json"), "w") as f:
        json.dump({"check": "X01", "tier": tier, "graphs": len(cases), "viz_events_validated": len(events), "rejected": len(mism),
                   "distinct_rejections": bad, "wall_s": round(time.time() - t0, 1)}, f, indent=1)
    shutil.rmtree(d, ignore_errors=True)
    return 1 if mism else 0


def replay(path, seed):
    return run("quick", seed)
