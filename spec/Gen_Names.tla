------------------------------ MODULE Gen_Names ------------------------------
(***************************************************************************)
(* Case generators for C06 (wire names), C04 (argument keys) and C12       *)
(* (listener names).                                                       *)
(*  keys   : (container rule) x (field | variant) x identifier x item attrs *)
(*  params : parameter lists over value / optional / injected / channel    *)
(*  events : event names over Tauri's alphabet                             *)
(***************************************************************************)
EXTENDS Names, Json

CONSTANTS Mode,        \* "idents" | "attrs" | "params" | "events"
          MaxLen

VARIABLE c

RECURSIVE Strings(_, _)
Strings(alpha, n) ==
    IF n = 0 THEN {<<>>}
    ELSE LET shorter == Strings(alpha, n - 1) IN
         shorter \cup {Append(s, a) : s \in {t \in shorter : Len(t) = n - 1}, a \in alpha}

\* legal Rust field identifiers over a small alphabet (snake, camel-ish, digits, underscores)
FieldAlpha == {"a", "b", "B", "1", "_"}
LegalField(s) == /\ s # <<>> /\ ~IsDigit(s[1])
                 /\ \E i \in DOMAIN s : s[i] # "_"            \* not only underscores
                 /\ ~(Len(s) >= 2 /\ s[1] = "_" /\ s[2] = "_")  \* serde's own derive rejects `__x' style corner cases
FieldIdents == {s \in Strings(FieldAlpha, MaxLen) : LegalField(s)}

VariantAlpha == {"A", "B", "a", "1"}
LegalVariant(s) == s # <<>> /\ IsUpper(s[1])
VariantIdents == {s \in Strings(VariantAlpha, MaxLen) : LegalVariant(s)}

AllRules == Rules \cup {"none"}

IdentCases ==
    {[kind |-> "field", rule |-> r, ident |-> s, attr |-> "none", hasRename |-> FALSE, rename |-> <<>>, skip |-> FALSE]
        : r \in AllRules, s \in FieldIdents}
    \cup
    {[kind |-> "variant", rule |-> r, ident |-> s, attr |-> "none", hasRename |-> FALSE, rename |-> <<>>, skip |-> FALSE]
        : r \in AllRules, s \in VariantIdents}

\* item-level attribute lists: id, whether they rename, to what, whether they skip
S(str) == str      \* renames are given as character sequences below
AttrCases == {
    [id |-> "rename_plain",        hasRename |-> TRUE,  rename |-> <<"n","e","w">>, skip |-> FALSE, onVariant |-> TRUE],
    [id |-> "rename_kebab",        hasRename |-> TRUE,  rename |-> <<"k","e","b","-","n","m">>, skip |-> FALSE, onVariant |-> TRUE],
    [id |-> "rename_space",        hasRename |-> TRUE,  rename |-> <<"w"," ","s">>, skip |-> FALSE, onVariant |-> TRUE],
    [id |-> "rename_keyword",      hasRename |-> TRUE,  rename |-> <<"t","y","p","e">>, skip |-> FALSE, onVariant |-> TRUE],
    [id |-> "rename_digit_first",  hasRename |-> TRUE,  rename |-> <<"1","s","t">>, skip |-> FALSE, onVariant |-> TRUE],
    [id |-> "rename_quote",        hasRename |-> TRUE,  rename |-> <<"q","\"","q">>, skip |-> FALSE, onVariant |-> TRUE],
    [id |-> "rename_contains_skip",hasRename |-> TRUE,  rename |-> <<"s","k","i","p","_","m","e">>, skip |-> FALSE, onVariant |-> TRUE],
    \* a rename that spells the identifier itself: exempts the item from the container's rename_all
    [id |-> "rename_identity",     hasRename |-> TRUE,  rename |-> <<>>, skip |-> FALSE, onVariant |-> TRUE],
    [id |-> "rename_is_rename_all",hasRename |-> TRUE,  rename |-> <<"r","e","n","a","m","e","_","a","l","l">>, skip |-> FALSE, onVariant |-> TRUE],
    [id |-> "skip",                hasRename |-> FALSE, rename |-> <<>>, skip |-> TRUE,  onVariant |-> FALSE],
    [id |-> "skip_ser_if",         hasRename |-> FALSE, rename |-> <<>>, skip |-> FALSE, onVariant |-> FALSE],
    [id |-> "default",             hasRename |-> FALSE, rename |-> <<>>, skip |-> FALSE, onVariant |-> FALSE],
    [id |-> "default_fn_named_skip",hasRename |-> FALSE, rename |-> <<>>, skip |-> FALSE, onVariant |-> FALSE],
    [id |-> "alias_skip",          hasRename |-> FALSE, rename |-> <<>>, skip |-> FALSE, onVariant |-> TRUE],
    [id |-> "alias_rename_text",   hasRename |-> FALSE, rename |-> <<>>, skip |-> FALSE, onVariant |-> TRUE],
    [id |-> "rename_then_skip_ser_if", hasRename |-> TRUE, rename |-> <<"r","1">>, skip |-> FALSE, onVariant |-> FALSE],
    [id |-> "skip_ser_if_then_rename", hasRename |-> TRUE, rename |-> <<"r","2">>, skip |-> FALSE, onVariant |-> FALSE],
    [id |-> "separate_attrs",      hasRename |-> TRUE,  rename |-> <<"r","3">>, skip |-> FALSE, onVariant |-> TRUE],
    [id |-> "separate_skip_last",  hasRename |-> FALSE, rename |-> <<>>, skip |-> TRUE,  onVariant |-> FALSE],
    [id |-> "with_doc_mentioning_skip", hasRename |-> FALSE, rename |-> <<>>, skip |-> FALSE, onVariant |-> TRUE] }

\* Structured attribute lists: up to three items out of six, all distinct (serde rejects duplicates), in every
\* order, split into separate #[serde(..)] attributes in every way (one item per attribute, or two in one)
AItems == {"rename", "skip", "default", "default_fn", "skip_ser_if", "alias"}
AttrLists ==
    { << <<a>> >> : a \in AItems }
    \cup { << <<a>>, <<b>> >> : <<a, b>> \in {p \in AItems \X AItems : p[1] # p[2]} }
    \cup { << <<a, b>> >> : <<a, b>> \in {p \in AItems \X AItems : p[1] # p[2]} }
    \cup UNION { { << <<t[1]>>, <<t[2]>>, <<t[3]>> >>, << <<t[1], t[2]>>, <<t[3]>> >>, << <<t[1]>>, <<t[2], t[3]>> >> }
                 : t \in {q \in AItems \X AItems \X AItems : q[1] # q[2] /\ q[1] # q[3] /\ q[2] # q[3]} }
ItemsOf(al) == UNION { {al[i][j] : j \in DOMAIN al[i]} : i \in DOMAIN al }
ListRename == <<"r","n">>
ListIdents == {<<"u","s","e","r","_","n","a","m","e">>, <<"x","1","_","y">>}
ListRules == {"none", "camelCase", "SCREAMING_SNAKE_CASE"}
AttrListCases ==
    {[kind |-> "field", rule |-> r, ident |-> s, attr |-> "list", alist |-> al,
      hasRename |-> "rename" \in ItemsOf(al), rename |-> (IF "rename" \in ItemsOf(al) THEN ListRename ELSE <<>>),
      skip |-> "skip" \in ItemsOf(al)]
        : r \in ListRules, s \in ListIdents, al \in AttrLists}

AttrIdentsF == {<<"u","s","e","r","_","n","a","m","e">>, <<"i","d">>, <<"x","1","_","y">>}
AttrIdentsV == {<<"I","n","P","r","o","g","r","e","s","s">>, <<"O","k">>, <<"H","T","T","P","S","e","r","v","e","r">>}
AttrCasesAll ==
    {[kind |-> "field", rule |-> r, ident |-> s, attr |-> a.id, alist |-> <<>>, hasRename |-> a.hasRename,
      rename |-> (IF a.id = "rename_identity" THEN s ELSE a.rename), skip |-> a.skip]
        : r \in AllRules, s \in AttrIdentsF, a \in AttrCases}
    \cup
    \* (vkind: the variant carries no data, a tuple, or named fields - its NAME follows the variant rule all the same)
    {[kind |-> "variant", rule |-> r, ident |-> s, attr |-> a.id, alist |-> <<>>, hasRename |-> a.hasRename,
      rename |-> (IF a.id = "rename_identity" THEN s ELSE a.rename), skip |-> a.skip, vkind |-> vk]
        : r \in AllRules, s \in AttrIdentsV, a \in {x \in AttrCases : x.onVariant} \cup {[id |-> "none", hasRename |-> FALSE, rename |-> <<>>, skip |-> FALSE, onVariant |-> TRUE]},
          vk \in {"unit", "tuple", "struct"}}
    \cup AttrListCases

\* ---- C04: parameter names (snake_case incl. digits, leading / trailing / double underscores, raw)
ParamAlpha == {"a", "b", "1", "_"}
LegalParam(s) == /\ s # <<>> /\ ~IsDigit(s[1]) /\ \E i \in DOMAIN s : s[i] # "_"
ParamIdents == {s \in Strings(ParamAlpha, MaxLen) : LegalParam(s)}
                \cup {<<"r","#","t","y","p","e">>, <<"u","s","e","r","_","i","d">>, <<"x","_","1","y">>}
ParamCases == {[kind |-> "param", ident |-> s, pcase |-> pc] : s \in ParamIdents, pc \in {"camelCase", "snake_case"}}

\* parameter LISTS: every sequence of up to 3 parameter classes (value, optional value, injected, channel)
PClasses == {"value", "optvalue", "injected", "channel"}
RECURSIVE ClassLists(_)
ClassLists(n) == IF n = 0 THEN {<<>>}
                 ELSE LET sh == ClassLists(n - 1) IN sh \cup {Append(l, x) : l \in {t \in sh : Len(t) = n - 1}, x \in PClasses}
ListCases == {[kind |-> "plist", classes |-> l, pcase |-> pc] : l \in ClassLists(3), pc \in {"camelCase", "snake_case"}}

\* ---- C12: event names over Tauri's alphabet  [A-Za-z0-9] - / : _
EventAlpha == {"a", "B", "1", "-", "/", ":", "_"}
EventNamesAll == {s \in Strings(EventAlpha, MaxLen) : s # <<>>}
EventCases == {[kind |-> "event", name |-> s] : s \in EventNamesAll}

Space == CASE Mode = "idents" -> IdentCases
           [] Mode = "attrs"  -> AttrCasesAll
           [] Mode = "params" -> ParamCases
           [] Mode = "plists" -> ListCases
           [] Mode = "events" -> EventCases
Init == c \in Space
Next == UNCHANGED c
Emit == PrintT(<<"REPLAY", ToJson(c)>>)
=============================================================================
