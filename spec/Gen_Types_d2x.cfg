INIT Init
NEXT Next
CONSTANTS MaxDepth = 2
 ExtraLeaves <- StrOnly
 LeafMode = "plain"
 WithPairs = TRUE
INVARIANT Emit
CHECK_DEADLOCK FALSE
