INIT Init
NEXT Next
CONSTANT Mode = "emits"
INVARIANT Emit
CHECK_DEADLOCK FALSE
