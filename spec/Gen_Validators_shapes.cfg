INIT Init
NEXT Next
CONSTANT Mode = "shapes"
INVARIANT Emit
CHECK_DEADLOCK FALSE
