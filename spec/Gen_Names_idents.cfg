INIT Init
NEXT Next
CONSTANTS Mode = "idents"
 MaxLen = 4
INVARIANT Emit
CHECK_DEADLOCK FALSE
