INIT Init
NEXT Next
CONSTANTS MaxDepth = 1
 LeafMode = "mapped"
 WithPairs = FALSE
INVARIANT Emit
CHECK_DEADLOCK FALSE
