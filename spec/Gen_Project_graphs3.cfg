INIT Init
NEXT Next
CONSTANT Mode = "graphs3"
INVARIANT Emit
CHECK_DEADLOCK FALSE
