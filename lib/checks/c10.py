"""C10 - Zod schemas describe the same structure as the plain TypeScript declarations.

The C05 type space is generated at the parameter and field sites in both modes (same project, two
runs of the real CLI).  TLC judges, per Rust item (Trace_Types):
  ZodVsPlain : ZodMatchesPlain(ShapeOfZod(schema), ShapeOfTs(plain type))  - same structure, Option
               rendered as omittable;
  DeclNames  : both modes declare the same set of type / parameter-object names;
  Keys       : per declared object the same key set, omittable in both or neither.
"""
import json
import os
import shutil
import time
from concurrent.futures import ThreadPoolExecutor

from lib import common as C
from lib import observe, rustgen, runner, tsprint, typecases
from lib import projcases as PC

PROP = "C10"


def declared_type_names(b):
    """names a consumer can use as TYPES from types.ts"""
    out = set()
    if b is None or not b.types:
        return []
    for it in b.types.items:
        if it["k"] in ("interface", "alias"):
            out.add(it["n"])
    return sorted(out)


def run(tier, seed, only=None):
    t0 = time.time()
    d = C.scratch("c10")
    verdicts = C.Verdicts(PROP)
    types, nex, nsim, g, s = typecases.generate_types(tier, seed, d)
    if only is not None:
        types = only
    obs, failures, runs = typecases.observe_types(d, types, sites=("field", "param"))
    by = {(o["idx"], o["site"], o["mode"]): o for o in obs}
    events = []
    meta = []
    for i, t in enumerate(types):
        for site in ("field", "param"):
            z = by.get((i, site, "zod"))
            p = by.get((i, site, "none"))
            if z is None or p is None:
                continue
            zz = z["zod"] if z["lang"] == "zod" else {"k": "missing"}
            events.append({"event": "ZodVsPlain", "case": "%d/%s" % (i, site), "site": site,
                           "rust": z["rust"], "zod": zz, "ts": p["ts"]})
            meta.append((i, site, z, p))
    # declared-name and key-set comparison on a feature project (structs, enum, channel, optional params)
    feat = feature_events(d)
    # return / channel message / event payload: both modes emit TypeScript there - the two renderings of the same Rust
    # item must agree, without and with a type-mapping table (mapped source names as leaves)
    from lib.checks import c18
    plain_small, _, _, _, _ = typecases.generate_types(tier, seed, d, cfg="Gen_Types_d1x", simulate=False, min_cases=50)
    mapped_pairs, _, _, _, _ = typecases.generate_types(tier, seed, d, cfg="Gen_Types_mapped1", simulate=False, min_cases=20,
                                                        keyf=lambda p: rustgen.canon(p["t"]))
    families = [("plain", plain_small, None, ""), ("mapped", [p["t"] for p in mapped_pairs], {"type_mappings": c18.TABLE}, c18.EXTRA_SRC)]
    agree = []
    for fam, ftypes, cfg, extra_src in families:
        fobs, ffail, fruns = typecases.observe_types(d, ftypes, sites=("ret", "chan", "event"), extra_cfg=cfg, extra_src=extra_src)
        fby = {(o["idx"], o["site"], o["mode"]): o for o in fobs}
        for i, t in enumerate(ftypes):
            for site in ("ret", "chan", "event"):
                zo = fby.get((i, site, "zod"))
                po = fby.get((i, site, "none"))
                if zo is None or po is None:
                    continue
                agree.append({"event": "ModesAgree", "case": "%s/%d/%s" % (fam, i, site), "family": fam, "site": site, "spelling": po["spelling"],
                              "none": po["ts"], "zod": zo["ts"], "nnames": typecases.referenced_names(po["ts"]),
                              "znames": typecases.referenced_names(zo["ts"]), "canon": rustgen.canon(t)})
    feat = feat + agree + enum_events(d)
    rejected = set()
    validated = 0
    CH = 40000
    for ci in range(0, len(events), CH):
        part = os.path.join(d, "trace-%d.ndjson" % ci)
        C.write_ndjson(part, events[ci:ci + CH])
        consumed, mism, r = C.validate_trace("Trace_Types", "Trace_Types", part, timeout=3000, heap="12g")
        if not consumed:
            raise C.ToolError("trace not consumed")
        validated += len(events[ci:ci + CH])
        for m in mism:
            i, site, z, p = meta[ci + m[1] - 1]
            rejected.add((i, site, "both"))
            z["gotkind"] = m[4]
        os.remove(part)
    minimal, nonmin = typecases.minimal_rejections(types, rejected)
    mm = {(i, site): (z, p) for (i, site, z, p) in meta}
    for (idx, site, _) in minimal:
        z, p = mm[(idx, site)]
        zs = tsprint.show_expr(z["zod"]) if z["lang"] == "zod" else "<no schema>"
        ps = tsprint.show(p["ts"])
        verdicts.reject("site=%s type=%s" % (site, typecases.head_signature(types[idx])), "zod=%s" % z.get("gotkind"),
                        "Rust type %s at site %s: Zod mode emits `%s`, plain mode declares `%s` - not the same structure"
                        % (z["spelling"], site, zs, ps),
                        {"type": types[idx], "site": site, "zod": zs, "plain": ps})
    fpart = os.path.join(d, "feat.ndjson")
    C.write_ndjson(fpart, feat)
    consumed, mism, r = C.validate_trace("Trace_Types", "Trace_Types", fpart, timeout=600)
    for m in mism:
        ev = feat[m[1] - 1]
        if ev["event"] == "ModesAgree":
            verdicts.reject("modes site=%s family=%s type=%s" % (ev["site"], ev["family"], ev["canon"]), "differs",
                            "Rust type %s at site %s: plain mode emits `%s`, Zod mode emits `%s`" % (ev["spelling"], ev["site"], tsprint.show(ev["none"]), tsprint.show(ev["zod"])),
                            {"case": ev["case"], "spelling": ev["spelling"]})
        elif ev["event"] == "DeclNames":
            only_none = sorted(set(ev["none"]) - set(ev["zod"]))
            only_zod = sorted(set(ev["zod"]) - set(ev["none"]))
            verdicts.reject("declnames project=%s only_none=%s only_zod=%s" % (ev["case"], ",".join(only_none), ",".join(only_zod)), "differs",
                            "the two modes declare different type names for the same project: only plain: %s; only zod: %s" % (only_none, only_zod), ev)
        else:
            verdicts.reject("keys decl=%s" % ev["decl"], "none=%s zod=%s" % (ev["none"], ev["zod"]),
                            "declaration %s has different keys/omittability in the two modes" % ev["decl"], ev)
    rc = verdicts.finish()
    samples = [{"rust": z["spelling"], "site": site, "zod": tsprint.show_expr(z["zod"]) if z["lang"] == "zod" else "", "plain": tsprint.show(p["ts"])}
               for (i, site, z, p) in meta[:: max(1, len(meta) // 5)][:5]]
    C.write_evidence(PROP, tier, seed, "exploration", {
        "evaluations": len(events) + len(feat),
        "distinct_nontrivial": len({(z["key"], site) for (i, site, z, p) in meta if "<" in z["key"] or "(" in z["key"]}),
        "rule": "one evaluation = one Rust type at the parameter or field site: Zod-mode schema vs plain-mode type of the same "
                "project, judged by TLC (ZodMatchesPlain); plus declared-name and key-set comparisons on a feature project. "
                "Types as in C05 (%d enumerated + %d simulated states)" % (nex, nsim),
        "samples": samples,
        "types": len(types), "generator_runs": runs,
        "traces_validated_against_impl": validated + len(feat),
        "rejected_observations": len(rejected), "minimal_rejected": len(minimal),
        "nonminimal_rejected_attributed": nonmin,
        "known_findings_matched": len(verdicts.known_hit),
        "exhaustive": True,
    }, time.time() - t0, assumptions=[
        "TS-subset parser faithful",
        "the value-level half of C10 (a value of the declared type is not rejected; output JSON-serialisable) is decided "
        "structurally: z.set / union-with-error / missing nullability are exactly the structural differences that make it fail",
    ], violations=len(verdicts.violations))
    shutil.rmtree(d, ignore_errors=True)
    return rc


FEATURE_SRC = rustgen.PRELUDE + """
#[derive(Serialize, Deserialize)]
pub struct Address { pub street: String, pub zip: Option<String>, pub tags: Vec<String> }
#[derive(Serialize, Deserialize)]
#[serde(rename_all = "camelCase")]
pub struct User { pub user_id: u32, pub home: Address, pub nick_name: Option<String>, pub status: Status,
    #[serde(skip)] pub secret: String, #[serde(rename = "mail")] pub email: String }
#[derive(Serialize, Deserialize)]
pub enum Status { Active, Inactive }
#[derive(Serialize, Deserialize)]
pub struct Progress { pub done: u8 }
#[derive(Serialize, Deserialize)]
pub struct Empty;
#[tauri::command]
pub fn create_user(user: User, note: Option<String>, dry_run: bool) -> Result<User, String> { todo!() }
#[tauri::command]
pub async fn watch(app: tauri::AppHandle, user_id: u32, on_progress: Channel<Progress>) -> Result<(), String> { todo!() }
#[tauri::command]
pub fn only_channel(ch: Channel<Status>) {}
#[tauri::command]
pub fn no_args() -> Vec<Address> { todo!() }
#[tauri::command]
pub fn take_empty(e: Empty, s: Status) {}
#[derive(Serialize, Deserialize)]
pub struct JobQueued { pub id: u32 }
#[derive(Serialize, Deserialize)]
pub struct JobFinished { pub id: u32, pub ok: bool, pub stats: JobStats }
#[derive(Serialize, Deserialize)]
pub struct JobStats { pub millis: u64 }
pub fn queue_job(app: tauri::AppHandle, j: JobQueued) { app.emit("job-status", j).ok(); }
pub fn finish_job(app: tauri::AppHandle, j: JobFinished) { app.emit("job-status", j).ok(); }
"""


def enum_events(d):
    """literal unions for enums: every TLC-enumerated variant attribute list (Gen_Names mode attrs: renames over the
    character classes incl. backslash, quotes and control characters, aliases, several attributes, the three variant
    kinds) under every convention is generated in both modes; the two declarations must consist of the same literals"""
    from lib.checks import c06
    ga = [c for c in C.run_tlc("Gen_Names", "Gen_Names_attrs", workers=4, timeout=900, heap="8g").json_lines("REPLAY") if c["kind"] == "variant"]
    if len(ga) < 500:
        raise C.ToolError("variant attribute cases incomplete: %d" % len(ga))
    named = [("E%d" % i, c) for i, c in enumerate(ga)]
    evs = []

    def work(job):
        pi, pack = job
        src = [PC.PRELUDE, "fn skip_default() -> u8 { 0 }\n"]
        for name, c in pack:
            # the case's variant between two plain ones, so that the union has several members
            src.append(c06.container_source(name, "variant", c["rule"], [dict(c, ident=list("Before"), attr="none", alist=[], skip=False, vkind="unit"), c,
                                                                        dict(c, ident=list("AfterIt"), attr="none", alist=[], skip=False, vkind="unit")]))
        src.append("#[tauri::command]\npub fn use_all(%s) {}\n" % ", ".join("p%d: %s" % (j, name) for j, (name, _) in enumerate(pack)))
        obs = {}
        for mode in ("none", "zod"):
            b, res, texts = PC.run_project(d, "enum%d-%s" % (pi, mode), {"src/lib.rs": "\n".join(src)}, mode=mode)
            for name, c in pack:
                o = c06.observe_container(b, name, "variant")
                obs[(name, mode)] = None if o is None else ["".join(x if len(x) == 1 else "<%s>" % x for x in e) for e, q in o]
        out = []
        for name, c in pack:
            a, z = obs[(name, "none")], obs[(name, "zod")]
            if a is None and z is None:
                continue      # not a literal union in either mode (data-carrying variants): outside this comparison
            out.append({"event": "Keys", "case": "enum/%s" % name, "decl": "enum rule=%s attr=%s vkind=%s" % (c["rule"], c["attr"] if c["attr"] != "list" else "+".join(c["alist"]), c.get("vkind", "unit")),
                        "none": a if a is not None else ["<not a literal union>"], "zod": z if z is not None else ["<not a literal union>"]})
        return out
    packs = [named[i:i + 120] for i in range(0, len(named), 120)]
    with ThreadPoolExecutor(max_workers=8) as ex:
        for out in ex.map(work, list(enumerate(packs))):
            evs.extend(out)
    if len(evs) < 300:
        raise C.ToolError("enum comparison vacuous: %d of %d cases observed as literal unions" % (len(evs), len(ga)))
    return evs


FEATURE_MAPPINGS = {"Address": "string", "JobStats": "number", "Status": "string", "PathBuf": "string"}


def feature_events(d):
    # ... once as it is and once under a mapping table that maps project types of the feature project: one used by
    # commands and nested in another struct (Address), an enum (Status), one reachable ONLY through an event payload
    # (JobStats) - the set of declared names must be the same in both modes under the table too
    return _feature_events(d, None) + _feature_events(d, FEATURE_MAPPINGS)


def _feature_events(d, mappings):
    tag = "feature" if mappings is None else "feature-mapped"
    bs = {}
    for mode in ("none", "zod"):
        b, res, texts = PC.run_project(d, "%s-%s" % (tag, mode), {"src/lib.rs": FEATURE_SRC}, mode=mode,
                                       extra_cfg=None if mappings is None else {"type_mappings": mappings})
        if res.rc != 0 or b is None:
            raise C.ToolError("feature project failed to generate: " + res.err[-500:])
        bs[mode] = b
    evs = [{"event": "DeclNames", "case": tag, "none": declared_type_names(bs["none"]), "zod": declared_type_names(bs["zod"])}]
    names = sorted(set(declared_type_names(bs["none"])) & set(declared_type_names(bs["zod"])))
    for n in names:
        a = bs["none"].members_of_type(n)
        b = bs["zod"].members_of_type(n)
        if not a or not b or a.get("kind") == "alias-other" or b.get("kind") == "alias-other":
            continue

        def keys(mem):
            out = []
            for k in mem["order"]:
                m = mem["members"][k]
                omit = m["opt"]
                if m["zod"].get("k") != "none":
                    omit = _zod_omittable(m["zod"])
                out.append("%s%s" % (k, "?" if omit else ""))
            return sorted(out)
        evs.append({"event": "Keys", "case": "%s/%s" % (tag, n), "decl": n, "none": keys(a), "zod": keys(b)})
    return evs


def _zod_omittable(e):
    cur = e
    for _ in range(30):
        if cur.get("k") == "call" and cur["f"].get("k") == "member":
            if cur["f"]["p"] in ("optional", "nullish", "default"):
                return True
            cur = cur["f"]["o"]
        else:
            return False
    return False


def replay(path, seed):
    obj = json.load(open(path))
    c = obj["case"]
    if "type" in c:
        t = c["type"]
        return run("quick", seed, only=[t] + rustgen.all_subterms(t))
    return run("quick", seed)
