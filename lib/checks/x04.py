"""X04 (beyond the listed properties) - decision table of `cargo tauri-typegen init`.

spec/InitCmd.tla states what `init` does with the configuration file for every combination of --output form
(default, bare / placed tauri.conf.json, bare / placed custom file), target existing or not, --force and
--validation value (80 cases): refuse to overwrite a custom file without --force, refuse to create a
tauri.conf.json, merge into an existing one, write a custom file; then the first generation.  TLC checks the table
against the safety statement `Safe` and enumerates the cases; each is one real CLI run in a fresh sandbox and
Trace_InitCmd requires observed = Expected(case).  Not registered in MANIFEST.json.
"""
import json
import os
import shutil
import time
from concurrent.futures import ThreadPoolExecutor

from lib import common as C
from lib import runner, rustgen

PROP = "X04"
CONF = {"productName": "demo", "build": {"frontendDist": "../dist"}, "plugins": {"shell": {"open": True}}}
OLD_CUSTOM = "{\"old\": \"custom content\"}\n"


def one(d, i, c, pdir="src-tauri"):
    root = os.path.join(d, "i%d-%s" % (i, pdir))
    files = {pdir + "/src/lib.rs": rustgen.PRELUDE + "#[tauri::command]\npub fn hello(name: String) -> String { name }\n"}
    out = c["output"]
    target = {"default": pdir + "/tauri.conf.json", "conf_bare": pdir + "/tauri.conf.json", "conf_in_dir": "cfgdir/tauri.conf.json",
              "custom_bare": "custom.json", "custom_in_dir": "cfgdir/custom.json"}[out]
    is_conf = target.endswith("tauri.conf.json")
    files["cfgdir/.keep"] = ""
    if c["exists"]:
        files[target] = json.dumps(CONF, indent=2) if is_conf else OLD_CUSTOM
    rustgen.write_project(root, files)
    tp = os.path.join(root, target)
    before = open(tp).read() if os.path.exists(tp) else None
    args = ["init", "-p", "./" + pdir, "-g", "./src/generated"]
    if out != "default":
        args += ["-o", {"conf_bare": "tauri.conf.json", "conf_in_dir": "cfgdir/tauri.conf.json", "custom_bare": "custom.json",
                        "custom_in_dir": "cfgdir/custom.json"}[out]]
    if c["library"] != "absent":
        args += ["-v", c["library"]]
    if c["force"]:
        args.append("--force")
    r = runner.cli(args, root)
    after = open(tp).read() if os.path.exists(tp) else None
    if after == before:
        config = "untouched"
    else:
        config = "other"
        try:
            j = json.loads(after)
            if is_conf:
                tg = j.get("plugins", {}).get("typegen")
                rest_ok = j.get("productName") == "demo" and j.get("plugins", {}).get("shell") == {"open": True} and j.get("build") == CONF["build"]
                if isinstance(tg, dict) and tg.get("outputPath") == "./src/generated" and tg.get("projectPath") == "./" + pdir and rest_ok:
                    config = "merged"
            elif j.get("project_path") == "./" + pdir and j.get("output_path") == "./src/generated":
                config = "written"
        except Exception:
            pass
    # stray configuration files anywhere else?
    stray = [p for p in ("tauri.conf.json", pdir + "/tauri.conf.json", "cfgdir/tauri.conf.json", "custom.json", "cfgdir/custom.json")
             if p != target and os.path.exists(os.path.join(root, p))]
    if stray:
        config = "stray:" + ",".join(stray)
    bindings = os.path.exists(os.path.join(root, "src", "generated", "commands.ts"))
    shutil.rmtree(root, ignore_errors=True)
    return {"event": "Init", "case": "i%d/%s" % (i, pdir), "c": c, "observed": {"status": r.status, "config": config, "bindings": bindings}}


def run(tier, seed):
    t0 = time.time()
    d = C.scratch("x04")
    g = C.run_tlc("Gen_InitCmd", "Gen_InitCmd", workers=2, timeout=300)
    if not g.ok:
        raise C.ToolError("InitCmd table violates Safe: %s" % g.error)
    cases = g.json_lines("REPLAY")
    if len(cases) != 80:
        raise C.ToolError("init case generation incomplete: %d" % len(cases))
    with ThreadPoolExecutor(max_workers=8) as ex:
        # every case with the project directory spelled plainly and with a dotted last component (a path is a path)
        events = list(ex.map(lambda ic: one(d, ic[0][0], ic[0][1], ic[1]), [(ic, pd) for ic in enumerate(cases) for pd in ("src-tauri", "app.v2")]))
    n = len(events)
    bad = json.loads(json.dumps(events[0]))
    bad["case"] = "selftest"
    bad["observed"]["bindings"] = not bad["observed"]["bindings"]
    p = os.path.join(d, "init.ndjson")
    C.write_ndjson(p, events + [bad])
    consumed, mism, r = C.validate_trace("Trace_InitCmd", "Trace_InitCmd", p, timeout=600)
    if not consumed:
        raise C.ToolError("init trace not consumed\n" + r.out[-1500:])
    if [m[1] for m in mism if m[1] > n] != [n + 1]:
        raise C.ToolError("binding self-test of Trace_InitCmd failed")
    real = [m for m in mism if m[1] <= n]
    for m in real[:20]:
        print("EXTRA-VIOLATION check=X04 case=%s %s" % (json.dumps(events[m[1] - 1]["c"]), str(m[4])[:400]))
    os.makedirs(os.path.join(C.WORK, "extra"), exist_ok=True)
    with open(os.path.join(C.WORK, "extra", "X04.json"), "w") as f:
        json.dump({"check": "X04", "cases": n, "rejected": len(real), "wall_s": round(time.time() - t0, 1)}, f, indent=1)
    shutil.rmtree(d, ignore_errors=True)
    return 1 if real else 0


def replay(path, seed):
    return run("quick", seed)
