"""C01 - every generated file is syntactically valid TypeScript.

Every file written for adversarial projects is parsed by the strict TypeScript-subset parser (lib/tsparse.py:
ECMAScript identifier syntax, reserved words as binding names, property keys, string-literal escapes, balanced
brackets, no stray '#' or '::'), and TLC judges the observation (Trace_Names.tla, event Syntax) with
Names!IsIdentifierName / KeyWellFormed: no unparsable item, every declared function / type / parameter name a
legal identifier, every property key an identifier name, a number or a quoted string.
Projects: the TLC-enumerated attribute lists and identifiers of C06 under every rename_all convention (kebab and
SCREAMING-KEBAB included), all 399 event names over Tauri's alphabet, validator messages over the character classes,
parameter identifiers, depth-1 type expressions at every site with type-mapping targets, JS reserved words that are
legal Rust identifiers in every name position, non-ASCII identifiers, the eight naming conventions as
default_field_case / default_parameter_case, exotic Rust syntax, in both output modes.
"""
import json
import os
import random
import shutil
import time
from concurrent.futures import ThreadPoolExecutor

from lib import common as C
from lib import observe, rustgen, typecases
from lib import projcases as PC
from lib.checks import c06, c10, c11, c15

PROP = "C01"

JS_RESERVED_RUST_LEGAL = ["new", "delete", "class", "function", "default", "var", "with", "export", "import", "extends",
                          "instanceof", "switch", "case", "this", "null", "arguments", "eval", "debugger", "package",
                          "interface", "implements", "private", "protected", "public", "void", "throw", "catch", "finally",
                          "undefined", "constructor", "prototype", "await2"]
# every ECMAScript reserved word / strict-mode reserved word / contextual troublemaker
JS_RESERVED_ALL = ["break", "case", "catch", "class", "const", "continue", "debugger", "default", "delete", "do", "else", "enum",
                   "export", "extends", "false", "finally", "for", "function", "if", "import", "in", "instanceof", "new", "null",
                   "return", "super", "switch", "this", "throw", "true", "try", "typeof", "var", "void", "while", "with", "yield",
                   "let", "static", "implements", "interface", "package", "private", "protected", "public", "await", "arguments",
                   "eval", "undefined"]
RUST_KEYWORDS = {"as", "break", "const", "continue", "crate", "else", "enum", "extern", "false", "fn", "for", "if", "impl", "in",
                 "let", "loop", "match", "mod", "move", "mut", "pub", "ref", "return", "self", "Self", "static", "struct", "super",
                 "trait", "true", "type", "unsafe", "use", "where", "while", "async", "await", "dyn", "abstract", "become", "box",
                 "do", "final", "macro", "override", "priv", "typeof", "unsized", "virtual", "yield", "try"}
RUST_NOT_RAWABLE = {"self", "Self", "super", "crate"}


def reserved_name_shapes(w):
    """Rust identifiers whose derived TypeScript name may collapse to the reserved word w: the word itself (where Rust
    allows it, raw where Rust needs that), and the usual keyword dodges (underscores before / after, capitalised)"""
    out = [w + "_", "_" + w, "__" + w, w + "__", w.capitalize(), w.upper()]
    if w not in RUST_KEYWORDS:
        out.append(w)
    elif w not in RUST_NOT_RAWABLE:
        out.append("r#" + w)
    return out


def reserved_shapes_project():
    src = [PC.PRELUDE]
    k = 0
    for w in JS_RESERVED_ALL:
        for nm in reserved_name_shapes(w):
            k += 1
            src.append("#[tauri::command]\npub fn %s(%s: u8, other_%d: Option<String>) -> u8 { 0 }\n" % (nm, nm if nm.lower() == nm or nm.startswith("r#") else "x", k))
    return "\n".join(src)


CONVENTIONS = ["camelCase", "snake_case", "PascalCase", "SCREAMING_SNAKE_CASE", "kebab-case", "SCREAMING-KEBAB-CASE", "lowercase", "UPPERCASE"]


PARAM_TYPES = ["u32", "Option<String>", "Option<Vec<u8>>", "Vec<Option<u8>>", "HashMap<String, u8>", "PT", "Option<PT>", "Option<Option<u8>>"]


def cls_chars(s):
    out = []
    for c in s:
        if 32 <= ord(c) < 127:
            out.append(c)
        else:
            out.append("uL" if c.isalpha() else "uX")
    return out


def syntax_events(b, texts, case):
    evs = []
    for f in ("types.ts", "commands.ts", "events.ts", "index.ts"):
        if f not in texts:
            continue
        m = b.mods.get(f) if b else None
        if m is None:
            evs.append({"event": "Syntax", "case": case, "file": f, "errors": ["file could not be read"], "names": [], "keys": []})
            continue
        names = []
        keys = []

        def walk(n):
            if isinstance(n, list):
                for x in n:
                    walk(x)
            elif isinstance(n, dict):
                if n.get("k") in ("member", "prop") and "key" in n and "kcs" in n:
                    keys.append({"cs": [c if len(c) == 1 else ("uL" if c.startswith("u") else c) for c in n["kcs"]], "quoted": bool(n["quoted"])})
                if n.get("k") == "param" and "n" in n:
                    names.append(cls_chars(n["n"]))
                for v in n.values():
                    walk(v)
        for it in m.items:
            if it["k"] in ("interface", "alias", "const", "function") and it.get("n"):
                names.append(cls_chars(it["n"]))
            walk(it)
        errs = ["%s: %s" % (e["name"] or "?", e["msg"]) for e in m.errors]
        etexts = [e["text"][:160] for e in m.errors]
        # expressions inside function bodies (invoke / listen calls) that do not parse
        for it in m.items:
            if it["k"] == "function":
                for c in it.get("calls", []):
                    if c.get("k") == "badcall":
                        errs.append("%s: in %s(...) call: %s" % (it["n"], c["f"], c["err"]))
                        etexts.append("")
        evs.append({"event": "Syntax", "case": case, "file": f, "errors": errs, "names": names, "keys": keys,
                    "texts": etexts})
    return evs


def reserved_project():
    src = [PC.PRELUDE, "use tauri::Emitter;\n"]
    for i, w in enumerate(JS_RESERVED_RUST_LEGAL):
        src.append("#[tauri::command]\npub fn %s(%s: u8, other_%d: Option<String>) -> u8 { 0 }\n" % (w, w, i))
    fields = "".join("    pub %s: u8,\n" % w for w in JS_RESERVED_RUST_LEGAL)
    src.append("#[derive(Serialize, Deserialize)]\npub struct Reserved {\n%s}\n" % fields)
    variants = "".join("    %s,\n" % w.capitalize() for w in JS_RESERVED_RUST_LEGAL) + "".join("    %s,\n" % w for w in ["new", "delete", "class"])
    src.append("#[derive(Serialize, Deserialize)]\n#[serde(rename_all = \"lowercase\")]\n#[allow(non_camel_case_types)]\npub enum ReservedE {\n%s}\n" % variants)
    src.append("#[tauri::command]\npub fn uses(r: Reserved, e: ReservedE, ch: Channel<Reserved>) {}\n")
    src.append("pub fn emits(app: tauri::AppHandle) {\n" + "".join("    app.emit(\"%s\", 1).ok();\n" % w for w in JS_RESERVED_RUST_LEGAL[:12]) + "}\n")
    return "\n".join(src)


def run(tier, seed):
    t0 = time.time()
    d = C.scratch("c01")
    verdicts = C.Verdicts(PROP)
    rnd = random.Random(seed)
    projects = []    # (id, files, extra_cfg or None)
    # 1. serde attribute lists and identifiers under every convention
    ga = C.run_tlc("Gen_Names", "Gen_Names_attrs", workers=2, timeout=600).json_lines("REPLAY")
    gi = C.run_tlc("Gen_Names", "Gen_Names_idents", workers=4, timeout=900, heap="8g").json_lines("REPLAY")
    gi = [c for c in gi if len(c["ident"]) <= 3] if tier == "quick" else gi
    groups = {}
    for c in gi:
        groups.setdefault((c["rule"], c["kind"]), []).append(c)
    conts = [(k, r, items[:150]) for (r, k), items in sorted(groups.items())] + [(c["kind"], c["rule"], [c]) for c in ga]
    for bi in range(0, len(conts), 100):
        src = [PC.PRELUDE, "fn skip_default() -> u8 { 0 }\n"]
        names = []
        for j, (kind, rule, items) in enumerate(conts[bi:bi + 100]):
            n = "K%d" % (bi + j)
            src.append(c06.container_source(n, kind, rule, items))
            names.append(n)
        src.append("#[tauri::command]\npub fn use_all(%s) {}\n" % ", ".join("p%d: %s" % (j, n) for j, n in enumerate(names)))
        projects.append(("keys%d" % bi, {"src/lib.rs": "\n".join(src)}, None))
    # 2. event names over Tauri's alphabet
    ge = C.run_tlc("Gen_Names", "Gen_Names_events", workers=2, timeout=600).json_lines("REPLAY")
    std = {"receiver": "app", "placed": "ok_recv", "frames": [], "method": "emit", "lit": True}
    for bi in range(0, len(ge), 140):
        src = PC.EMIT_PRELUDE + "use tauri::Emitter;\n"
        for j, c in enumerate(ge[bi:bi + 140]):
            src += PC.emit_fn(bi + j, std, name="".join(c["name"]))
        projects.append(("events%d" % bi, {"src/lib.rs": src}, None))
    # 3. validator messages
    gm = C.run_tlc("Gen_Validators", "Gen_Validators_messages", workers=4, timeout=900, heap="8g").json_lines("REPLAY")
    gm = [m for m in gm if len(m["v"]["length"]["msg"]) <= 2] + rnd.sample([m for m in gm if len(m["v"]["length"]["msg"]) == 3], 300 if tier == "quick" else 3000)
    for bi in range(0, len(gm), 150):
        src = [PC.PRELUDE, "use validator::Validate;\n"]
        for j, c in enumerate(gm[bi:bi + 150]):
            src.append("#[derive(Serialize, Deserialize, Validate)]\npub struct V%d {\n    #[validate(%s)]\n    pub f: String,\n}\n" % (j, ", ".join(c11.validator_text(c["v"]))))
        src.append("#[tauri::command]\npub fn use_all(%s) {}\n" % ", ".join("p%d: V%d" % (j, j) for j in range(len(gm[bi:bi + 150]))))
        projects.append(("msgs%d" % bi, {"src/lib.rs": "\n".join(src)}, None))
    # 4. parameter identifiers under the two parameter cases and every default case convention
    gp = C.run_tlc("Gen_Names", "Gen_Names_params", workers=2, timeout=600).json_lines("REPLAY")
    idents = sorted({"".join(c["ident"]) for c in gp})
    # ... each with every shape of parameter type (the Zod parameter schema is written per shape: required, optional,
    # optional container, project type), and function- / parameter-level serde renames that are not identifiers
    psrc = PC.PRELUDE + "#[derive(Serialize, Deserialize)]\npub struct PT {\n    pub v: u8,\n}\n"
    psrc += "".join("#[tauri::command]\npub fn pc%d_%d(%s: %s, ch_%d: Channel<u8>) {}\n" % (i, k, n, ty, i)
                    for i, n in enumerate(idents) for k, ty in enumerate(PARAM_TYPES))
    for k, ty in enumerate(PARAM_TYPES):
        psrc += "#[tauri::command]\npub fn pr%d(#[serde(rename = \"display-name\")] display_name: %s, #[serde(rename = \"2nd\")] second: %s, plain_one: %s) {}\n" % (k, ty, ty, ty)
        for ci, conv in enumerate(CONVENTIONS):
            psrc += "#[tauri::command]\n#[serde(rename_all = \"%s\")]\npub fn pa%d_%d(first_arg: %s, second_arg_2: %s) {}\n" % (conv, k, ci, ty, ty)
    for conv in CONVENTIONS:
        projects.append(("params-" + conv, {"src/lib.rs": psrc}, {"default_parameter_case": conv, "default_field_case": conv}))
        projects.append(("feature-" + conv, {"src/lib.rs": c10.FEATURE_SRC}, {"default_parameter_case": conv, "default_field_case": conv}))
    # 5. type expressions at every site, with type-mapping targets
    # quick: every constructor over every leaf class, every constructor pair over the string and the project-type leaf
    types, _, _, _, _ = typecases.generate_types(tier, seed, d, cfg="Gen_Types_d1x" if tier == "quick" else "Gen_Types_d2", simulate=False, min_cases=50)
    named = [(i, rustgen.name_leaves(t)[0]) for i, t in enumerate(types)]
    for bi in range(0, len(named), 100):
        tsrc, _ = rustgen.types_project(named[bi:bi + 100])
        projects.append(("types%d" % bi, {"src/lib.rs": tsrc}, None))
        projects.append(("types-mapped%d" % bi, {"src/lib.rs": tsrc}, {"type_mappings": {"N0": "string", "N1": "Date", "N2": "Record<string, unknown>"}}))
    # 6. reserved words, non-ASCII names, exotic syntax
    projects.append(("reserved", {"src/lib.rs": reserved_project()}, None))
    projects.append(("reserved-shapes", {"src/lib.rs": reserved_shapes_project()}, None))
    # (event names with characters Tauri does not allow - newline, quotes - are outside C01's quantifier; C15 keeps them)
    exotic = [t for t in c15.EXOTIC_ITEMS if "app.emit(" not in t]
    projects.append(("exotic", {"src/lib.rs": rustgen.PRELUDE + "use validator::Validate;\n" + "\n".join(exotic) + "\n#[tauri::command]\npub fn anchor_all() {}\n"}, None))

    def work(job):
        (pid, files, cfg), mode = job
        b, res, texts = PC.run_project(d, "%s-%s" % (pid, mode), files, mode=mode, extra_cfg=cfg)
        if res.status == "ok" and "commands.ts" not in texts:
            raise C.ToolError("case project %s (%s) produced no bindings: the generated Rust source is not what was intended\n%s" % (pid, mode, (res.out + res.err)[-600:]))
        evs = syntax_events(b, texts, "%s/%s" % (pid, mode))
        return evs, res.status, pid, mode
    jobs = [(p, m) for p in projects for m in ("none", "zod")]
    events = []
    failed = []
    with ThreadPoolExecutor(max_workers=12) as ex:
        for evs, status, pid, mode in ex.map(work, jobs):
            events.extend(evs)
            if status != "ok":
                failed.append((pid, mode, status))
    tl = [{k: v for k, v in e.items() if k != "texts"} for e in events]
    p = os.path.join(d, "t.ndjson")
    C.write_ndjson(p, tl)
    consumed, mm, r = C.validate_trace("Trace_Names", "Trace_Names", p, timeout=3000, heap="12g")
    if not consumed:
        raise C.ToolError("trace not consumed\n" + r.out[-1500:])
    import re
    for m in mm:
        e = events[m[1] - 1]
        pid = e["case"].split("/")[0]
        group = re.sub(r"\d+$", "", pid)
        for err, txt in list(zip(e["errors"], e.get("texts", [])))[:60]:
            msg = err.split(": ", 1)[-1]
            nm = err.split(": ", 1)[0]
            sig = re.sub(r"'[^']*'", "'_'", msg)
            sig = re.sub(r"\d+", "#", sig)
            verdicts.reject("group=%s file=%s error=%s" % (group, e["file"], sig[:90]), shape_of(nm),
                            "%s (%s): item `%s` does not parse: %s -- %s" % (e["file"], e["case"], nm, msg, txt[:140]),
                            {"case": e["case"], "file": e["file"], "item": nm, "text": txt})
        why = m[4]
        w = why if isinstance(why, list) else [str(why)]
        if len(w) > 3 and str(w[3]) not in ("{}", ""):
            verdicts.reject("group=%s file=%s illegal-names" % (group, e["file"]), str(w[3])[:100], "%s (%s): declared names are not legal identifiers: %s" % (e["file"], e["case"], w[3]), {"case": e["case"]})
        if len(w) > 5 and str(w[5]) not in ("{}", ""):
            verdicts.reject("group=%s file=%s bad-keys" % (group, e["file"]), str(w[5])[:100], "%s (%s): property keys neither identifiers nor quoted: %s" % (e["file"], e["case"], w[5]), {"case": e["case"]})
    for pid, mode, status in failed:
        if status in ("panic", "killed"):
            verdicts.reject("run group=%s status=%s" % (re.sub(r"\d+$", "", pid), status), mode, "generation of project %s (mode %s) ended with %s" % (pid, mode, status), {})
    rc = verdicts.finish()
    nitems = sum(len(e["names"]) for e in events)
    C.write_evidence(PROP, tier, seed, "exploration", {
        "evaluations": len(events),
        "distinct_nontrivial": nitems,
        "rule": "one evaluation = one generated file parsed and judged; distinct_nontrivial = declared names checked; %d projects x 2 modes "
                "(serde keys under every convention, %d event names, %d validator messages, %d parameter identifiers x 8 default conventions, "
                "%d type expressions x 5 sites with mapping targets, JS reserved words, non-ASCII names, exotic syntax)" %
                (len(projects), len(ge), len(gm), len(idents), len(types)),
        "samples": [{"case": e["case"], "file": e["file"], "names": len(e["names"]), "keys": len(e["keys"])} for e in events[:: max(1, len(events) // 6)][:6]],
        "traces_validated_against_impl": len(events), "keys_checked": sum(len(e["keys"]) for e in events),
        "runs_not_ok": failed[:10],
        "known_findings_matched": len(verdicts.known_hit),
        "exhaustive": False,
    }, time.time() - t0, assumptions=["validity is judged by the harness's TypeScript-subset parser; the TypeScript compiler is not available offline",
                                      "projects the tool rejects (non-zero exit without panic) are outside the property ('every project the tool accepts')"],
        violations=len(verdicts.violations))
    shutil.rmtree(d, ignore_errors=True)
    return rc


def shape_of(name):
    import re
    if name in JS_RESERVED_RUST_LEGAL:
        return "reserved-word"
    return re.sub(r"\d+", "#", name)[:40]


def replay(path, seed):
    return run("quick", seed)
