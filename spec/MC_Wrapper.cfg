CONSTANT Variant = "asbuilt"
SPECIFICATION Spec
INVARIANT ProtocolHolds
INVARIANT Terminates
INVARIANT Emit
CHECK_DEADLOCK FALSE
