INIT Init
NEXT Next
CONSTANTS Mode = "params"
 MaxLen = 4
INVARIANT Emit
CHECK_DEADLOCK FALSE
