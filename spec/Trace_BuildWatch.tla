--------------------------- MODULE Trace_BuildWatch ---------------------------
(* Trace validation for X05: each event is one real build-driver run in a sandbox: the abstract case and what happened
   (status, which source's output directory received bindings, the set of cargo:rerun-if-changed paths by role).     *)
EXTENDS BuildWatch, Json, IOUtils, TLC, Sequences
Rec == ndJsonDeserialize(IOEnv.TRACE)
VARIABLE l
AsSet(s) == {s[i] : i \in 1..Len(s)}
Obs(e) == [status |-> e.observed.status, source |-> e.observed.source, watched |-> AsSet(e.observed.watched), bindings |-> e.observed.bindings]
Judge(e) == Obs(e) = Expected(e.c) /\ InputsWatched(e.c, Obs(e))
TraceInit == l = 1
TraceNext ==
    /\ l <= Len(Rec)
    /\ IF Judge(Rec[l]) THEN TRUE ELSE PrintT(<<"MISMATCH", l, "Build", Rec[l].case, <<"expected", Expected(Rec[l].c), "observed", Obs(Rec[l])>>>>)
    /\ l' = l + 1
TraceSpec == TraceInit /\ [][TraceNext]_l
TraceAccepted ==
    LET d == TLCGet("stats").diameter IN
    IF d - 1 = Len(Rec) THEN PrintT(<<"TRACE-CONSUMED", Len(Rec)>>)
    ELSE PrintT(<<"TRACE-STUCK", d, Len(Rec)>>) /\ FALSE
=============================================================================
