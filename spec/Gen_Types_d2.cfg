INIT Init
NEXT Next
CONSTANTS MaxDepth = 2
 ExtraLeaves <- NoExtra
 LeafMode = "plain"
 WithPairs = TRUE
INVARIANT Emit
CHECK_DEADLOCK FALSE
