INIT Init
NEXT Next
CONSTANTS Mode = "events"
 MaxLen = 3
INVARIANT Emit
CHECK_DEADLOCK FALSE
