"""Shared by C07, C09 and C02: TLC-enumerated type graphs -> real projects -> observations."""
import os
import random
from concurrent.futures import ThreadPoolExecutor

from lib import common as C
from lib import projcases as PC

PACK = 60


def generate(tier, seed):
    g3 = C.run_tlc("Gen_Project", "Gen_Project_graphs3", workers=4, timeout=900, heap="8g").json_lines("REPLAY")
    ge = C.run_tlc("Gen_Project", "Gen_Project_edges", workers=4, timeout=900, heap="8g").json_lines("REPLAY")
    if len(g3) < 3000 or len(ge) < 3000:
        raise C.ToolError("graph generation incomplete: %d %d" % (len(g3), len(ge)))
    total = (len(g3), len(ge))
    rnd = random.Random(seed)
    if tier == "quick":
        g3 = rnd.sample(g3, 500)
        # every (edge context, root site) and every (root context, root site) at least once
        seen = set()
        pick = []
        rnd.shuffle(ge)
        for c in ge:
            ectx = [e["ctx"] for e in c["edges"]["A"] if e["to"] == "B"][0]
            r = c["roots"][0]
            ks = [("e", ectx, r["site"]), ("r", r["ctx"], r["site"]), ("s", c["serde"]["D"], ectx)]
            if any(k not in seen for k in ks):
                seen.update(ks)
                pick.append(c)
        ge = pick
    return g3 + ge, total


def observe(d, cases, modes=("none", "zod"), repeats=1):
    """-> list of dict(case index, mode, types, roots, declared, bindings-level events)"""
    indexed = list(enumerate(cases))
    packs = [indexed[i:i + PACK] for i in range(0, len(indexed), PACK)]
    jobs = [(pi, pk, mode, rep) for pi, pk in enumerate(packs) for mode in modes for rep in range(repeats)]

    def work(job):
        pi, pk, mode, rep = job
        src = [PC.PRELUDE, "use tauri::Emitter;\n"]
        meta = []
        for i, g in pk:
            text, types, roots, pre = PC.graph_source(i, g)
            src.append(text)
            meta.append((i, types, roots, pre))
        b, res, texts = PC.run_project(d, "g%d-%s-%d" % (pi, mode, rep), {"src/lib.rs": "\n".join(src)}, mode=mode)
        out = []
        for i, types, roots, pre in meta:
            out.append({"idx": i, "mode": mode, "types": types, "roots": roots, "declared": PC.declared_types(b, pre),
                        "status": res.status})
        mods = PC.modules_event(b, texts, "g%d-%s-%d" % (pi, mode, rep)) if b else None
        return out, mods, mode, res.status
    reach = []
    modules = []
    with ThreadPoolExecutor(max_workers=10) as ex:
        for out, mods, mode, status in ex.map(work, jobs):
            reach.extend(out)
            if mods:
                mods["mode"] = mode
                modules.append(mods)
    return reach, modules
