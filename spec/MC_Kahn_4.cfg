SPECIFICATION KahnSpec
CONSTANTS Nodes = {"T0","T1","T2","T3"}
 MaxMult = 1
INVARIANTS KahnContractHolds
CHECK_DEADLOCK FALSE
