"""C03 - exactly one wrapper per discovered command, invoking exactly its Rust name.

TLC enumerates (spec/Gen_Project.tla, Mode = "disc") every combination of path class (12: root, nested 1 and 3
deep, under target/, deep under target/, under .git/, look-alikes `targets/`, `target.rs`, `.github/`, hidden dir,
non-.rs, `.RS`) x parsable/unparsable file x attribute spelling (7 command spellings, 4 non-command ones) x item
position (top level / inside mod / inside impl) x visibility x async: 4752 cases.  The harness packs them into
real projects (one file per case) and runs the real CLI in both modes; Trace_Project.tla judges
Project!C03_Holds(files, wrappers): the set of invoke names equals Commands(files), one wrapper each.
A separate layout puts the project itself below a directory called `target`.
"""
import json
import os
import random
import shutil
import time
from concurrent.futures import ThreadPoolExecutor

from lib import common as C
from lib import projcases as PC

PROP = "C03"
PACK = 150


def run(tier, seed, only=None):
    t0 = time.time()
    d = C.scratch("c03")
    verdicts = C.Verdicts(PROP)
    g = C.run_tlc("Gen_Project", "Gen_Project_disc", workers=4, timeout=900, heap="8g")
    cases = g.json_lines("REPLAY")
    if len(cases) < 35000:
        raise C.ToolError("too few discovery cases: %d" % len(cases))
    total = len(cases)
    rnd = random.Random(seed)
    if tier == "quick":
        # every (path class, attribute, position, parsable) at least once + a seeded sample of the rest
        seenk = set()
        pick = []
        rnd.shuffle(cases)
        for c in cases:
            k = ((c["pc"], c["attr"], c["pos"], c["parsable"], c.get("nm", "plain")) if c.get("par", "value") == "value"
                 else ("par", c["attr"], c["pos"], c["par"], c.get("nm", "plain"), c["parsable"]))
            if k not in seenk:
                seenk.add(k)
                pick.append(c)
        cases = pick
    rnd.shuffle(cases)
    indexed = list(enumerate(cases))
    packs = [indexed[i:i + PACK] for i in range(0, len(indexed), PACK)]
    jobs = [(pi, pk, mode, layout) for pi, pk in enumerate(packs) for mode in ("none", "zod")
            for layout in (("plain", "abs_under_target") if pi == 0 else ("plain",))]

    def work(job):
        pi, pk, mode, layout = job
        files, abstract = PC.disc_project(pk)
        name = "p%d-%s-%s" % (pi, mode, layout)
        if layout == "abs_under_target":
            root = os.path.join(d, name, "target", "proj")
            files = {os.path.join("target", "proj", k): v for k, v in files.items()}
            b, res, texts = PC.run_project(d, name, files, mode=mode, project=os.path.join(d, name, "target", "proj", "src"), expect_parse=False)
        else:
            b, res, texts = PC.run_project(d, name, files, mode=mode, expect_parse=False)
        wr = PC.observe_wrappers(b)
        return {"event": "Discovery", "case": "%s" % name, "layout": layout, "mode": mode, "status": res.status,
                "files": abstract, "wrappers": wr}, pk
    events = []
    packs_of = []
    with ThreadPoolExecutor(max_workers=10) as ex:
        for ev, pk in ex.map(work, jobs):
            events.append(ev)
            packs_of.append(pk)
    mism = PC.validate_project_trace(d, events, "c03", chunk=40)
    for idx, why in mism:
        ev = events[idx]
        pk = dict(packs_of[idx])
        # attribute to the abstract cases whose function is missing / extra
        txt = str(why)
        import re
        names = sorted(set(re.findall(r"disc_cmd_(\d+)", txt)) | set(re.findall(r"sib(\d+)_\d+", txt)))
        if ev["status"] != "ok" and not names:
            verdicts.reject("layout=%s run=%s" % (ev["layout"], ev["status"]), "no wrappers", "generation failed: %s" % ev["status"], {"case": ev["case"]})
            continue
        if not names:
            verdicts.reject("layout=%s what=%s" % (ev["layout"], txt[:80]), "set mismatch", "layout %s: %s" % (ev["layout"], txt[:300]), {"case": ev["case"]})
        seen = set()
        for n in names:
            c = pk.get(int(n))
            if not c:
                continue
            expected = c["pc"] in ("root", "depth1", "depth3", "sibling_targets", "file_named_target", "git_lookalike", "dotdir", "beside_git_file", "beside_target_file", "beside_target_link", "module_named_build", "module_named_mod", "module_named_main") \
                and c["parsable"] and c["pos"] == "top" and c["attr"] in PC.ATTR_TEXT and c["attr"] not in ("none", "other_command", "tauri_other", "command_in_doc_only")
            key = "layout=%s pc=%s parsable=%s attr=%s pos=%s" % (ev["layout"], c["pc"], c["parsable"], c["attr"], c["pos"])
            if key in seen:
                continue
            seen.add(key)
            verdicts.reject(key, "missing" if expected else "extra",
                            "function disc%s (%s, %s file at path class %s, position %s, vis %s, async %s): wrapper %s"
                            % (n, c["attr"], "parsable" if c["parsable"] else "unparsable", c["pc"], c["pos"], c["vis"], c["async"],
                               "MISSING" if expected else "emitted although it is not a command"),
                            {"case": c, "layout": ev["layout"], "mode": ev["mode"]})
    rc = verdicts.finish()
    C.write_evidence(PROP, tier, seed, "exploration", {
        "evaluations": len(cases) * 2,
        "distinct_nontrivial": len({(c["pc"], c["attr"], c["pos"], c["parsable"], c["vis"], c["async"]) for c in cases}),
        "rule": "one evaluation = one TLC-enumerated (path class, parsable, attribute spelling, position, visibility, async) case "
                "generated in one mode; %d of %d enumerated cases (%s); plus the project-below-`target` layout" %
                (len(cases), total, "every (path class, attribute, position, parsable) combination" if tier == "quick" else "all"),
        "samples": cases[:4],
        "projects_generated": len(events), "traces_validated_against_impl": len(events),
        "known_findings_matched": len(verdicts.known_hit),
        "exhaustive": tier == "thorough",
    }, time.time() - t0, assumptions=["cfg_attr-conditional command attributes are outside the case space (the property is silent on them)",
                                      "`.RS` is treated as not a .rs file"],
        violations=len(verdicts.violations))
    shutil.rmtree(d, ignore_errors=True)
    return rc


def replay(path, seed):
    return run("quick", seed)
