-------------------------------- MODULE Names --------------------------------
(***************************************************************************)
(* Names on the wire and in the generated text (contract layer for C06,    *)
(* C04, C12 and the identifier part of C01).  Strings are sequences of     *)
(* one-character strings so that the renaming rules can be written         *)
(* character by character; the harness converts.                           *)
(*                                                                         *)
(* FieldRule / VariantRule transcribe serde_derive's RenameRule            *)
(* (internals/case.rs): apply_to_field and apply_to_variant are DIFFERENT  *)
(* algorithms.  LowerCamelHeck / SnakeHeck transcribe what Tauri's command *)
(* macro applies to argument names (heck) for snake_case Rust identifiers. *)
(* Both transcriptions are validated against the real crates by the        *)
(* oracle-crate step of check C06 (serde_derive, heck are in the cache).   *)
(***************************************************************************)
EXTENDS Naturals, Sequences, FiniteSets, TLC

LowerChars == <<"a","b","c","d","e","f","g","h","i","j","k","l","m","n","o","p","q","r","s","t","u","v","w","x","y","z">>
UpperChars == <<"A","B","C","D","E","F","G","H","I","J","K","L","M","N","O","P","Q","R","S","T","U","V","W","X","Y","Z">>
DigitChars == {"0","1","2","3","4","5","6","7","8","9"}

IsLower(c) == \E i \in 1..26 : LowerChars[i] = c
IsUpper(c) == \E i \in 1..26 : UpperChars[i] = c
IsDigit(c) == c \in DigitChars
IsLetter(c) == IsLower(c) \/ IsUpper(c)
ToUpper(c) == IF IsLower(c) THEN UpperChars[CHOOSE i \in 1..26 : LowerChars[i] = c] ELSE c
ToLower(c) == IF IsUpper(c) THEN LowerChars[CHOOSE i \in 1..26 : UpperChars[i] = c] ELSE c

Map(F(_), s) == [i \in DOMAIN s |-> F(s[i])]
UpperAll(s) == Map(ToUpper, s)
LowerAll(s) == Map(ToLower, s)
Replace(s, from, to) == [i \in DOMAIN s |-> IF s[i] = from THEN to ELSE s[i]]
LowerFirst(s) == IF s = <<>> THEN s ELSE <<ToLower(s[1])>> \o Tail(s)

Rules == {"lowercase", "UPPERCASE", "PascalCase", "camelCase", "snake_case",
          "SCREAMING_SNAKE_CASE", "kebab-case", "SCREAMING-KEBAB-CASE"}

-----------------------------------------------------------------------------
(* serde: apply_to_field (the field name is assumed to be snake_case; the   *)
(* algorithm is applied to whatever it is)                                  *)

\* PascalCase of a field: drop underscores, capitalise the character after each (and the first)
RECURSIVE PascalF(_, _)
PascalF(s, cap) ==
    IF s = <<>> THEN <<>>
    ELSE IF Head(s) = "_" THEN PascalF(Tail(s), TRUE)
    ELSE IF cap THEN <<ToUpper(Head(s))>> \o PascalF(Tail(s), FALSE)
    ELSE <<Head(s)>> \o PascalF(Tail(s), FALSE)

FieldRule(rule, s) ==
    CASE rule \in {"none", "lowercase", "snake_case"} -> s
      [] rule = "UPPERCASE" -> UpperAll(s)
      [] rule = "PascalCase" -> PascalF(s, TRUE)
      [] rule = "camelCase" -> LowerFirst(PascalF(s, TRUE))
      [] rule = "SCREAMING_SNAKE_CASE" -> UpperAll(s)
      [] rule = "kebab-case" -> Replace(s, "_", "-")
      [] rule = "SCREAMING-KEBAB-CASE" -> Replace(UpperAll(s), "_", "-")

(* serde: apply_to_variant (the variant name is assumed to be PascalCase)   *)
RECURSIVE SnakeV(_, _)
SnakeV(s, first) ==
    IF s = <<>> THEN <<>>
    ELSE (IF IsUpper(Head(s)) /\ ~first THEN <<"_">> ELSE <<>>)
         \o <<ToLower(Head(s))>> \o SnakeV(Tail(s), FALSE)

VariantRule(rule, s) ==
    CASE rule \in {"none", "PascalCase"} -> s
      [] rule = "lowercase" -> LowerAll(s)
      [] rule = "UPPERCASE" -> UpperAll(s)
      [] rule = "camelCase" -> LowerFirst(s)
      [] rule = "snake_case" -> SnakeV(s, TRUE)
      [] rule = "SCREAMING_SNAKE_CASE" -> UpperAll(SnakeV(s, TRUE))
      [] rule = "kebab-case" -> Replace(SnakeV(s, TRUE), "_", "-")
      [] rule = "SCREAMING-KEBAB-CASE" -> Replace(UpperAll(SnakeV(s, TRUE)), "_", "-")

\* C06: the name serde puts on the wire.  item = [kind, ident, rename ("" = none), hasRename, skip]
WireName(rule, item) ==
    IF item.hasRename THEN item.rename
    ELSE IF item.kind = "variant" THEN VariantRule(rule, item.ident)
    ELSE FieldRule(rule, item.ident)
OnWire(item) == ~item.skip

-----------------------------------------------------------------------------
(* Tauri (heck) on snake_case Rust argument names                           *)

\* words of a snake_case identifier: maximal runs between underscores
RECURSIVE Words(_, _)
Words(s, cur) ==
    IF s = <<>> THEN (IF cur = <<>> THEN <<>> ELSE <<cur>>)
    ELSE IF Head(s) = "_" THEN (IF cur = <<>> THEN <<>> ELSE <<cur>>) \o Words(Tail(s), <<>>)
    ELSE Words(Tail(s), Append(cur, Head(s)))

Capitalise(w) == IF w = <<>> THEN w ELSE <<ToUpper(w[1])>> \o LowerAll(Tail(w))

RECURSIVE Concat(_)
Concat(ws) == IF ws = <<>> THEN <<>> ELSE Head(ws) \o Concat(Tail(ws))
RECURSIVE JoinWith(_, _)
JoinWith(ws, sep) == IF ws = <<>> THEN <<>>
                     ELSE IF Len(ws) = 1 THEN Head(ws)
                     ELSE Head(ws) \o <<sep>> \o JoinWith(Tail(ws), sep)

LowerCamelHeck(s) ==
    LET ws == Words(s, <<>>) IN
    IF ws = <<>> THEN <<>> ELSE LowerAll(Head(ws)) \o Concat(Map(Capitalise, Tail(ws)))
SnakeHeck(s) == JoinWith(Map(LowerAll, Words(s, <<>>)), "_")

\* raw identifiers: r#type is the identifier `type'
Unraw(s) == IF Len(s) >= 2 /\ s[1] = "r" /\ s[2] = "#" THEN SubSeq(s, 3, Len(s)) ELSE s

\* C04: the key Tauri deserialises an argument from
ArgKey(case, ident) ==
    CASE case = "camelCase" -> LowerCamelHeck(Unraw(ident))
      [] case = "snake_case" -> SnakeHeck(Unraw(ident))

-----------------------------------------------------------------------------
(* TypeScript identifiers and property keys (C01)                           *)

IsIdStart(c) == IsLetter(c) \/ c = "_" \/ c = "$" \/ c = "uL"      \* "uL": a non-ASCII letter (harness token)
IsIdPart(c) == IsIdStart(c) \/ IsDigit(c)
IsIdentifierName(s) == s # <<>> /\ IsIdStart(s[1]) /\ \A i \in DOMAIN s : IsIdPart(s[i])

\* a property key is well-formed iff it is a bare identifier name (or number) or it is quoted
KeyWellFormed(key) == key.quoted \/ IsIdentifierName(key.cs) \/ \A i \in DOMAIN key.cs : IsDigit(key.cs[i])
=============================================================================
