"""Concretiser: abstract cases (TLA+-generated ASTs) -> Rust source text / project trees."""
import json
import os

NUM_SPELLINGS = ["i32", "u8", "i64", "f64", "usize", "u32", "i8", "i16", "i128", "isize", "u16", "u64", "u128", "f32"]
STR_SPELLINGS = ["String", "&'static str"]
# when set, constructors and project types are spelled with their full paths (std::option::Option<..>,
# std::collections::HashMap<..>, crate::N0): a path-qualified type is the type its last segment names
QUALIFIED_SPELLING = False
QUAL = {"Option": "std::option::Option", "Vec": "std::vec::Vec", "HashSet": "std::collections::HashSet",
        "BTreeSet": "std::collections::BTreeSet", "HashMap": "::std::collections::HashMap", "BTreeMap": "std::collections::BTreeMap",
        "Result": "std::result::Result", "String": "std::string::String"}


# path-qualified spellings of mapped source names (the name a mapping is looked up by is the last segment)
MAPPED_QUAL = {"PathBuf": "std::path::PathBuf", "DateTime<Utc>": "chrono::DateTime<Utc>", "UserId": "crate::UserId", "Flag": "crate::flags::Flag",
               "Uuid": "uuid::Uuid"}


def q(name):
    return QUAL.get(name, name) if QUALIFIED_SPELLING else name


# when set, generic argument lists and tuples are laid out the way rustfmt wraps a type that does not fit the line:
# one argument per line and a trailing comma - the same type, a different token layout
WRAPPED_LAYOUT = False


def args(xs):
    """the text between < > or ( ) for the argument spellings xs"""
    if WRAPPED_LAYOUT:
        return "\n        " + ",\n        ".join(xs) + ",\n    "
    return ", ".join(xs)


class Speller:
    """Assigns concrete spellings to leaf classes (rotating, deterministic) and names to named leaves."""

    def __init__(self, rotate=True):
        self.n = 0
        self.s = 0
        self.rotate = rotate

    def leaf(self, c):
        if c == "str":
            self.s += 1
            return q(STR_SPELLINGS[self.s % 2] if self.rotate else "String")
        if c == "num":
            self.n += 1
            return NUM_SPELLINGS[self.n % len(NUM_SPELLINGS)] if self.rotate else "i32"
        if c == "bool":
            return "bool"
        if c == "unit":
            return "()"
        raise ValueError(c)


def name_leaves(ast, prefix="N"):
    """Returns a copy of the AST where named leaves get distinct names N0,N1.. left to right."""
    counter = [0]

    def go(t):
        k = t["k"]
        if k == "named":
            nm = t.get("n", "N")
            if nm == "N":
                nm = "%s%d" % (prefix, counter[0])
                counter[0] += 1
            return {"k": "named", "n": nm}
        if k in ("leaf", "mapped"):
            return dict(t)
        if k == "tup":
            return {"k": "tup", "ts": [go(x) for x in t["ts"]]}
        r = {"k": k, "a": go(t["a"])}
        if "b" in t:
            r["b"] = go(t["b"])
        return r

    out = go(ast)
    return out, counter[0]


def spell(t, sp):
    k = t["k"]
    if k == "leaf":
        return sp.leaf(t["c"])
    if k == "named":
        return ("crate::" + t["n"]) if QUALIFIED_SPELLING else t["n"]
    if k == "mapped":
        return MAPPED_QUAL.get(t["n"], "ext::" + t["n"]) if QUALIFIED_SPELLING else t["n"]
    a = spell(t["a"], sp) if "a" in t else None
    if k == "opt":
        return "%s<%s>" % (q("Option"), args([a]))
    if k == "vec":
        return "%s<%s>" % (q("Vec"), args([a]))
    if k == "hset":
        return "%s<%s>" % (q("HashSet"), args([a]))
    if k == "bset":
        return "%s<%s>" % (q("BTreeSet"), args([a]))
    if k == "ref":
        return "&'static %s" % a if not a.startswith("&") else "&'static %s" % a
    if k == "res1":
        return ("anyhow::Result<%s>" if QUALIFIED_SPELLING else "Result<%s>") % args([a])
    if k == "chan":
        return "Channel<%s>" % a
    if k in ("hmap", "bmap", "res"):
        b = spell(t["b"], sp)
        return q({"hmap": "HashMap", "bmap": "BTreeMap", "res": "Result"}[k]) + "<%s>" % args([a, b])
    if k == "tup":
        parts = [spell(x, sp) for x in t["ts"]]
        if len(parts) == 1:
            return "(%s,)" % parts[0]
        return "(%s)" % args(parts)
    raise ValueError(k)


def canon(t):
    """Canonical text of an abstract type (leaf classes, not spellings) - used as case key."""
    k = t["k"]
    if k == "leaf":
        return t["c"]
    if k == "named":
        return "N"
    if k == "mapped":
        return "M:%s=%s" % (t["n"], t["to"])
    if k == "tup":
        return "(%s)" % ",".join(canon(x) for x in t["ts"])
    nm = {"opt": "Option", "vec": "Vec", "hset": "HashSet", "bset": "BTreeSet", "ref": "&", "res1": "Result1",
          "chan": "Channel", "hmap": "HashMap", "bmap": "BTreeMap", "res": "Result"}[k]
    if "b" in t:
        return "%s<%s,%s>" % (nm, canon(t["a"]), canon(t["b"]))
    return "%s<%s>" % (nm, canon(t["a"]))


def subterms(t):
    """Proper immediate subterms."""
    k = t["k"]
    if k in ("leaf", "named", "mapped"):
        return []
    if k == "tup":
        return list(t["ts"])
    r = [t["a"]]
    if "b" in t:
        r.append(t["b"])
    return r


def all_subterms(t):
    out = []
    for s in subterms(t):
        out.append(s)
        out.extend(all_subterms(s))
    return out


PRELUDE = """#![allow(unused)]
use serde::{Deserialize, Serialize};
use std::collections::{BTreeMap, BTreeSet, HashMap, HashSet};
use tauri::ipc::Channel;
"""


def named_defs(names, extra_derive="Serialize, Deserialize"):
    """project types the cases refer to: every second one is a unit-variant enum (valid as a map key)"""
    out = []
    for i, n in enumerate(names):
        if i % 2 == 1:
            out.append("#[derive(%s, PartialEq, Eq, Hash, PartialOrd, Ord)]\npub enum %s {\n    First,\n    Second,\n}\n" % (extra_derive, n))
        else:
            out.append("#[derive(%s)]\npub struct %s {\n    pub v: i32,\n}\n" % (extra_derive, n))
    return "\n".join(out)


def types_project(cases, sites=("field", "param", "ret", "chan", "event"), keep_named=True):
    """cases: list of (idx, named_ast).  Returns (rust_source, spellings{idx:{site:text}})."""
    src = [PRELUDE]
    maxn = 0
    spellings = {}
    body = []
    for idx, ast in cases:
        nn = count_named(ast)
        maxn = max(maxn, nn)
        spellings[idx] = {}
        for site in sites:
            sp = Speller()
            sp.n = idx
            sp.s = idx
            ty = spell(ast, sp)
            spellings[idx][site] = ty
            if site == "field":
                body.append("#[derive(Serialize, Deserialize)]\npub struct F%d {\n    pub f: %s,\n}\n#[tauri::command]\npub fn u%d(x: F%d) {}\n" % (idx, ty, idx, idx))
            elif site == "param":
                body.append("#[tauri::command]\npub fn p%d(a: %s) {}\n" % (idx, ty))
            elif site == "ret":
                body.append("#[tauri::command]\npub fn r%d() -> %s {\n    todo!()\n}\n" % (idx, ty))
            elif site == "chan":
                body.append("#[tauri::command]\npub fn h%d(ch: Channel<%s>) {}\n" % (idx, ty))
            elif site == "event":
                body.append("pub fn e%d(app: tauri::AppHandle, x: %s) {\n    app.emit(\"ev%d\", x).ok();\n}\n" % (idx, ty, idx))
    src.append(named_defs(["N%d" % i for i in range(maxn)]))
    # keep every named type reachable regardless of the case under test
    if maxn and keep_named:
        src.append("#[tauri::command]\npub fn keep_named(%s) {}\n" % ", ".join("k%d: N%d" % (i, i) for i in range(maxn)))
    src.extend(body)
    return "\n".join(src), spellings


def count_named(t):
    k = t["k"]
    if k == "named":
        return int(t["n"][1:]) + 1 if t["n"][1:].isdigit() else 1
    if k in ("leaf", "mapped"):
        return 0
    if k == "tup":
        return max([count_named(x) for x in t["ts"]] + [0])
    r = count_named(t["a"])
    if "b" in t:
        r = max(r, count_named(t["b"]))
    return r


def write_project(root, files):
    for rel, text in files.items():
        p = os.path.join(root, rel)
        os.makedirs(os.path.dirname(p), exist_ok=True)
        if text.startswith("SYMLINK:"):
            if os.path.lexists(p):
                os.remove(p)
            os.symlink(text[len("SYMLINK:"):], p)
            continue
        with open(p, "w") as f:
            f.write(text)


def standalone_config(project_path, output_path, mode, **kw):
    cfg = {"project_path": project_path, "output_path": output_path, "validation_library": mode}
    cfg.update(kw)
    return json.dumps(cfg, indent=1)
