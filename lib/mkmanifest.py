#!/usr/bin/env python3
"""Regenerates MANIFEST.json from the table below (single source of truth for registered checks)."""
import json, os
VERIF = os.path.dirname(os.path.dirname(os.path.abspath(__file__)))
BASE_OFF = ("cd /repo && (cargo nextest run --workspace --no-fail-fast --test-threads 8 --offline "
            "|| cargo test --workspace --no-fail-fast --offline)")
CHECKS = {
 "C20": dict(level="model_checking", technique="TLA+ step machines model-checked by TLC; TLC-enumerated graphs replayed into the real routines; results trace-validated by TLC against the contract operators",
    text="TLC explores the DFS and Kahn step machines for every graph on <=3 (quick) / <=4 (thorough) nodes under every hash iteration order and checks the contract; the real routines are run on the same exhaustive case space (plus random graphs to 12 nodes) and every distinct result is validated by TLC against the same contract operators.",
    note="Bounded: <=4 nodes exhaustively, <=12 randomly. Trusted: TLC, Json module, harness graph construction via public API.", ref="6 (C20)"),
}
CHECKS["C05"] = dict(level="exploration", technique="TLA+ TypeLang operators (Shape/ShapeOfTs/ShapeOfZod) as oracle; TLC bounded-exhaustive enumeration of Rust type expressions replayed through the real CLI; parsed output trace-validated by TLC",
    text="Every Rust type expression TLC enumerates from Gen_Types (5 leaf classes under <=2 (quick) / <=3 (thorough) of 22 one-hole contexts, binary nodes with composite arguments, simulated deeper chains) is generated at each of the five translation sites in both modes by the real CLI; TLC judges each observation with ShapeEq(Shape(rust), ShapeOfTs|ShapeOfZod(emitted)). Bounded-exhaustive exploration with a specification oracle, not a proof.",
    note="Trusted: the TS-subset parser, TLC, the reading of the README type table in TypeLang.tla. Only minimal rejected expressions are reported.", ref="6 (C05)")
CHECKS["C10"] = dict(level="exploration", technique="TLA+ TypeLang operators (ShapeOfZod vs ShapeOfTs, ZodMatchesPlain) as oracle over TLC-enumerated types generated in both modes by the real CLI; trace validation by TLC",
    text="For every TLC-enumerated Rust type at the parameter and field sites, the Zod-mode schema and the plain-mode type of the same project are parsed and TLC checks that they denote the same structure (Option as omittable); declared names and key sets of a feature project are compared likewise. Bounded-exhaustive exploration with a specification oracle.",
    note="The value-level half (not rejected / JSON-serialisable) is decided structurally, not by running Zod (not available offline). Trusted: TS parser, TLC.", ref="6 (C10)")
CHECKS["C18"] = dict(level="exploration", technique="TLA+ Subst/Shape operators; TLC enumerates types over mapped source names; real CLI run with and without the mapping table; differential trace validation by TLC",
    text="TLC enumerates type expressions over the source names of a type_mappings table (plain, generic, and one that is also a project struct) under up to 2 contexts together with their substituted twins (TypeLang!Subst); both are generated at every site in both modes; TLC checks that T[N] under the mapping denotes what T[M] denotes, that mapped names are neither declared nor referenced, and that unmapped types are AST-identical with and without the table.",
    note="Targets limited to string/number/boolean as the property states. Trusted: TS parser, TLC.", ref="6 (C18)")
CHECKS["C08"] = dict(level="model_checking", technique="TLA+ Pipeline phase machine (as-built knobs vs contract invariants) model-checked by TLC; TLC-enumerated edit/loss histories replayed on the real CLI and build driver under strace; traces validated by TLC (Trace_Pipeline)",
    text="TLC checks the contract invariants (success => every expected file present and current; never vouch for stale files) on the Pipeline model for every interleaving of <=2 environment steps, 3 runs, 1 fault, both drivers, with intended and as-built knobs; the histories TLC enumerates from the as-built model (27 output-affecting edit classes, loss of each generated file, events/commands/visualisation toggles) are executed on the real binary and the real BuildSystem driver and each run is judged by the trace specification against a differential oracle.",
    note="Bounded histories (<=1 env step exhaustively + sample quick; <=2 thorough). Oracle = forced run of the same binary. As-built drift is reported in the evidence. Trusted: strace, TLC.", ref="6 (C08)")
CHECKS["C14"] = dict(level="model_checking", technique="TLA+ Pipeline model (C14_NoChangeNoWrite action property, C14_ForceRegenerates) checked by TLC for every iteration order; TLC-enumerated repeat and force histories replayed on the real CLI/build driver under strace; trace validation by TLC",
    text="TLC checks on the Pipeline model that a non-forced run on an unchanged, cleanly generated project performs no mutation and that a run with --force or force:true rewrites every expected file, for both drivers, every iteration order and the four flag/config combinations; the TLC-enumerated repeat history (6 runs, 1..6 command files, fresh process each) and force histories (every cache state x flag/config combination) are executed on the real binaries under strace with bytes/mtime/inode comparison and judged by Trace_Pipeline.",
    note="Known finding C14-build-probe (build driver's .write_test). Trusted: strace, TLC.", ref="6 (C14)")
CHECKS["C17"] = dict(level="fault_enumeration", technique="TLA+ Pipeline model with fault plans model-checked by TLC (cache never vouches for stale files, in every state); TLC-enumerated fault histories executed on the real binaries with strace fault injection; trace validation by TLC",
    text="Every fault plan TLC enumerates (open failure, write failure after truncation, or kill at each file of the write sequence incl. .typecache and the dependency-graph files, in a first run or after an output-changing edit, followed by recovery runs) is injected into the real CLI and the real build driver with strace; Trace_Pipeline checks that a failed write is reported, that no file is written after the cache record, that a further non-forced run would not report up to date over stale files, and that recovery ends current.",
    note="Quick tier samples one history per (fault kind, file, position, viz); thorough runs all ~6000. failopen on .typecache also fails the read of the record (harness artefact, reported as drift).", ref="6 (C17)")
CHECKS["C16"] = dict(level="model_checking", technique="TLA+ Pipeline model (probe file, confinement action property) checked by TLC; TLC-enumerated histories replayed on generate/init/build drivers over 7 output-directory layouts under strace; every mutating syscall and a recursive before/after hash judged by TLC (Trace_Pipeline, reserved-name predicate on character sequences)",
    text="TLC checks the confinement action property on the Pipeline model; every history TLC enumerates (incl. runs that find no commands, a foreign .write_test, lost files, reruns) is executed with the real generate, init and build drivers in 7 directory layouts with the output directory pre-populated by foreign files whose names are close to the reserved ones; Trace_Pipeline accepts a run only if every file-mutating system call hits a reserved generated name directly inside the output directory (or creates that directory; init: the configuration file) and nothing else in the sandbox changed.",
    note="The sandbox stands for the rest of the file system. Trusted: strace completeness, TLC.", ref="6 (C16)")
CHECKS["C13"] = dict(level="model_checking", technique="TLA+ Pipeline model (C13_OrderIndependent over every iteration order) checked by TLC with a negative-control knob setting; many fresh-process runs and semantics-preserving source transformations on the real CLI/build driver; output relations (identical / vizonly / declset) judged by TLC",
    text="TLC shows on the Pipeline model that what a run writes is independent of the iteration order it sees (and rejects the pinned tree's knob setting); on the real binaries each project state (base, each of 27 edit classes, sampled pairs; 1..6 command files) is generated by many fresh processes on both drivers and under each semantics-preserving transformation, and Trace_Pipeline judges the relations the property demands over per-file sequences of declaration digests.",
    note="Schedules (hash seeds) on the real binary are sampled (6 processes quick / 25 thorough per state); exhaustiveness over orders is in the model only.", ref="6 (C13)")
CHECKS["C19"] = dict(level="exploration", technique="TLA+ ConfigDoc operators (Norm/Foreign/Preserved, RoundTrips, Effective, MustReject) as oracle; TLC enumerates document shapes and all 26 244 flag/file combinations; real save/load and real CLI runs; trace validation by TLC",
    text="TLC-enumerated JSON document shapes filled from an atom pool (escaped/Unicode strings, i64/u64 extremes, decimals) go through the real save_to_tauri_config / from_tauri_config and TLC checks that everything outside plugins.typegen is preserved atom for atom and that the settings read back equal those written; every TLC-enumerated combination of flags and file settings (sampled in quick) is run on the real CLI and the observed effective settings are compared with ConfigDoc!Effective; invalid settings must be rejected before anything is written.",
    note="Documents whose `plugins` is not an object are outside the property's quantifier and not judged. Numbers limited to exactly representable f64/i64/u64. Exact JSON reader = Python json with Decimal.", ref="6 (C19)")
CHECKS["C03"] = dict(level="exploration", technique="TLA+ Project!Commands / C03_Holds as oracle; TLC enumerates path classes x parsability x attribute spellings x item positions; cases packed into real projects, real CLI, parsed wrappers trace-validated by TLC",
    text="All 4752 TLC-enumerated discovery cases (12 path classes incl. target/.git and their look-alikes, unparsable files, 11 attribute spellings, top-level / mod / impl, visibility, async) are generated by the real CLI in both modes (quick: every path class x attribute x position x parsability combination); TLC compares the set of invoke names with Project!Commands and demands exactly one wrapper each; plus a project located below a directory called target.",
    note="cfg_attr-conditional command attributes are outside the case space. Trusted: TS parser, TLC.", ref="6 (C03)")
CHECKS["C07"] = dict(level="exploration", technique="TLA+ Project!Reachable (least fixpoint over serde types, Result error arm excluded) as oracle; TLC enumerates type graphs and edge contexts; real CLI; declared names trace-validated by TLC",
    text="All 512 digraphs on three types x root sets and chain/diamond/fan-out shapes with each edge through each of 20 constructor contexts, rooted at every site through 6 root contexts, with serde and non-serde decoys, and five shapes (chain, diamond, fan-out, cycle, two roots over one child) under all 256 assignments of the command file and the types to four files in the analyser's walk order, are generated as real projects in both modes; TLC checks declared type names = Project!Reachable, once each.",
    note="Quick tier samples 500 of the 3584 three-node cases and covers every (edge context, site) pair and one file assignment per relative order of the four placements; thorough runs all 3584 + 7920 + 2560.", ref="6 (C07)")
CHECKS["C09"] = dict(level="model_checking", technique="TLA+ TopoSort DFS step machine model-checked over every iteration order; acyclic TLC-enumerated graphs generated in Zod mode by fresh processes; Output!DefinedBeforeUse judged by TLC on the parsed module",
    text="TLC shows that the DFS ordering emits dependencies first for every acyclic graph on <=3 types under every hash iteration order; the acyclic TLC-enumerated graphs (every DAG on 3 nodes, shapes x edge contexts x root sites) are generated in Zod mode and TLC checks on the parsed types module that no `export const` right-hand side eagerly mentions a schema constant defined later (parameter schemas included).",
    note="Real-binary schedules are sampled (2 / 6 processes per project); order exhaustiveness is in the model.", ref="6 (C09)")
CHECKS["C02"] = dict(level="exploration", technique="TLA+ Output module-graph operators (Closed, NoDuplicateExports, IndexMatches) as oracle over parsed output of TLC-enumerated projects",
    text="Every output directory produced for the TLC-enumerated type graphs, for named types at every structural position of every site, for repeated events and a feature project is parsed into module records (imports, declarations, type/value references, lazy references) and TLC checks that every reference resolves in the right declaration space, no export is duplicated and index.ts re-exports exactly the written files.",
    note="Known finding C02-unprefixed-nested (pinned by unit tests). Built-in TS names are a fixed list.", ref="6 (C02)")
CHECKS["C06"] = dict(level="exploration", technique="TLA+ Names operators (serde FieldRule / VariantRule transcribed char by char, WireName) as oracle, validated against the real serde derive; TLC enumerates identifiers x conventions x attribute lists; real CLI; parsed keys trace-validated by TLC",
    text="Every legal field / variant identifier over a small alphabet up to length 4 under each of the 8 rename_all conventions and none, and 19 item-level attribute lists under every convention, is generated by the real CLI in both modes; TLC checks present iff not #[serde(skip)] and emitted key / literal = Names!WireName. The thorough tier compiles the same containers with the real serde derive and requires Names.tla to agree with it.",
    note="skip_serializing / skip_deserializing / flatten are outside the case space. Quick: identifiers up to length 3 exhaustively + 600 of length 4.", ref="6 (C06)")
CHECKS["C04"] = dict(level="exploration", technique="TLA+ Names!ArgKey (heck lowerCamel / snake on snake_case identifiers, unraw) as oracle; TLC enumerates parameter-class lists and identifiers; real CLI; declared / omittable / delivered key sets trace-validated by TLC",
    text="Every sequence of up to 3 parameter classes (value, optional, injected, channel) under both supported parameter cases, with the injected parameter rotated through 11 accepted spellings and the channel through 3, and every snake_case identifier over {a,b,1,_} up to length 4 plus raw identifiers, is generated in both modes; TLC checks that the Params declaration and the object reaching invoke carry exactly the keys Tauri deserialises, omittable iff Option.",
    note="Tauri's macro is not available offline; its key derivation (heck) is transcribed in Names.tla. Bare `Window` without generics is not in the spelling list. Known finding C04-ipc-channel-dropped.", ref="6 (C04)")
CHECKS["C12"] = dict(level="exploration", technique="TLA+ Project!EventNames / OptionalNames and the Listeners judge; TLC enumerates emit placements x receivers x methods and event names over Tauri's alphabet; real CLI; parsed listeners trace-validated by TLC; payload types judged by TypeLang",
    text="All 10 010 TLC-enumerated emit cases (10 tail forms inside paths of up to 2 of 19 enclosing frames - 3 in the thorough tier - x 8 receivers x emit/emit_to x literal/non-literal) and all 399 event names over [aB1-/:_] up to length 3, repeated emissions, a project without events and 18 payload forms are generated in both modes; TLC checks one listener per distinct required name, subscribed to exactly that name, legal and unique function identifiers, events.ts presence / re-export, and the payload type (translation of the Rust type where evident, unknown otherwise).",
    note="Closure bodies, nested fns, async and unsafe blocks, `return e` and conditions are optional placements. Known finding C12-untyped-variable-payload (pinned by a unit test).", ref="6 (C12)")
CHECKS["C11"] = dict(level="exploration", technique="TLA+ Attrs!Expected / C11_Holds as oracle; TLC enumerates validator shapes, numeric literal classes and messages over character classes; real CLI in Zod mode; parsed schema chains trace-validated by TLC",
    text="476 validator shapes x applicable field type classes, 63 numeric bound pairs and every message over 17 character classes up to length 3 (5219; quick: length <=2 + 500 sampled) are generated in Zod mode; the method chain of each field schema is parsed (bounds as exact numbers under IEEE-double semantics, messages decoded from the JS literal) and TLC checks that the constraint calls are exactly the declared ones and that sibling fields carry none.",
    note="Known finding C11-email-url-shared-message. Zod's run-time behaviour is not executed (zod is not available offline); the chain is compared syntactically.", ref="6 (C11)")
CHECKS["C01"] = dict(level="exploration", technique="strict TypeScript-subset parser as observation, TLA+ Names!IsIdentifierName / KeyWellFormed as judge (Trace_Names Syntax events) over TLC-enumerated adversarial names, keys, messages and type expressions generated by the real CLI",
    text="Every file generated for adversarial projects (TLC-enumerated serde attribute lists and identifiers under all conventions, 399 event names, validator messages over 17 character classes, parameter identifiers under all 8 default conventions, type expressions at every site with mapping targets, JS reserved words in every name position, non-ASCII names, exotic Rust syntax; both modes) is parsed item by item; TLC requires no unparsable item, legal identifiers for all declared names and well-formed property keys.",
    note="Validity is judged by the harness parser (tsc is not available offline): a construct the parser wrongly accepts weakens the check. Event names with characters Tauri forbids are outside the quantifier.", ref="6 (C01)")
CHECKS["C15"] = dict(level="exploration", technique="Trace_Pipeline termination contract (RunEnd in {ok, err}) and isolation relation over runs of the real code on exotic-syntax sources, character-level fuzzed attribute payloads and a real-world corpus (in-process driver with panic capture)",
    text="Runs of the real CLI on grammar-generated exotic items, character-level fuzzed attribute payloads and structurally fuzzed validate / serde / command attribute lists (valid token trees that are not attribute syntax), and of the library entry point on every .rs file of the repository and of the vendored registry sources (quick: seeded 2500-file sample; thorough: all, with truncations and single-character mutations) are recorded as behaviours; Trace_Pipeline rejects any run that does not end in ok/err, and checks that adding unparsable files leaves the output of the other files identical.",
    note="Totality over all Rust sources is a sampling claim; the specification contributes the termination and isolation contracts only.", ref="6 (C15)")
NOT_YET = {}
def main():
    props = [json.loads(l) for l in open(os.path.join(VERIF, "properties.jsonl"))]
    checks = []
    na = []
    for p in props:
        pid = p["id"]
        if pid in CHECKS:
            c = CHECKS[pid]
            checks.append({
                "property_id": pid,
                "quick_cmd": "bin/check %s --tier quick" % pid,
                "thorough_cmd": "bin/check %s --tier thorough" % pid,
                "evidence_file": "/verif/evidence/%s.json" % pid,
                "replay_cmd_template": "bin/check %s --replay {path}" % pid,
                "engine": "tla-trace",
                "level_claimed": {"category": c["level"], "text": c["text"], "design_ref": "DESIGN.md section " + c["ref"]},
                "level_note": c["note"],
                "technique": c["technique"],
            })
        else:
            na.append({"property_id": pid, "reason": NOT_YET.get(pid, "check not built yet in this round; planned per DESIGN.md section 6")})
    m = {
        "version": 1,
        "setup_cmd": "cd /verif && bin/setup",
        "hooks": {
            "guard": "--cfg tauri_typegen_verif",
            "enable": "rustflags --cfg tauri_typegen_verif via /verif/harness/.cargo/config.toml (cargo build --config ... for the CLI binary)",
            "baseline_off_cmd": BASE_OFF,
            "source_commits": [],
            "add_only": True,
        },
        "engines": [{"name": "tla-trace", "path": "/verif/bin/check",
                     "serves_properties": sorted(CHECKS),
                     "kind_free_text": "explicit TLA+ specification (spec/*.tla) model-checked by TLC; cases/behaviours generated by TLC are replayed into the real code; events recorded from the real code are validated by TLC against the specification"}],
        "checks": checks,
        "not_applicable": na,
        "notes": "All verdicts are TLC rejecting an observed execution of the real code (DESIGN.md section 5). Known findings: /verif/known_findings.json.",
    }
    json.dump(m, open(os.path.join(VERIF, "MANIFEST.json"), "w"), indent=1)
if __name__ == "__main__":
    main()
