SPECIFICATION FaultSpec
CONSTANTS
 Classes <- SmallClasses
 HashedClasses <- SmallClasses
 VizHashed = TRUE
 EventsHashed = TRUE
 NOrders = 1
 KeyDependsOnOrder = FALSE
 OutputDependsOnOrder = FALSE
 CacheLooksAtFiles = TRUE
 CacheSavedLast = TRUE
 CacheDroppedFirst = TRUE
 Drivers <- CliOnly
 BuildCleansOnEmpty = TRUE
 BuildProbes = TRUE
 MaxEnv = 1
 MaxRuns = 3
 MaxFaults = 1
VIEW View
CONSTRAINT FaultConstraint
INVARIANT EmitHist
CHECK_DEADLOCK FALSE
