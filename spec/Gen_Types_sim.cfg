INIT BInit
NEXT BNext
CONSTANTS MaxDepth = 0
 ExtraLeaves <- NoExtra
 LeafMode = "plain"
 WithPairs = FALSE
INVARIANT Emit
CHECK_DEADLOCK FALSE
