------------------------------ MODULE TopoSort ------------------------------
(***************************************************************************)
(* As-built layer of TypeDependencyGraph::topological_sort_types: the      *)
(* post-order DFS as a step machine in which every HashSet iteration order *)
(* is a separate behaviour.  Contract: DepGraph!TopoContract (C20, C09).   *)
(***************************************************************************)
EXTENDS DepGraph

CONSTANTS Nodes          \* finite set of node names (strings)

-----------------------------------------------------------------------------
(* AS-BUILT LAYER 1: the DFS as a step machine                              *)

VARIABLES
    deps,        \* the graph under test, fixed after Init
    requested,   \* the set handed to topological_sort_types
    outerLeft,   \* requested nodes the outer `for' has not yet yielded
    stack,       \* call stack of topological_visit: <<[node, left]>>, top is last
    visited, visiting, sorted,
    pc           \* "outer" | "done"

dfsVars == <<deps, requested, outerLeft, stack, visited, visiting, sorted, pc>>

DfsInit ==
    /\ deps \in [Nodes -> SUBSET Nodes]
    /\ requested \in (SUBSET Nodes) \ {{}}
    /\ outerLeft = requested
    /\ stack = <<>>
    /\ visited = {} /\ visiting = {} /\ sorted = <<>>
    /\ pc = "outer"

\* Effect of *calling* topological_visit(n): the two early returns or a new frame.
Call(n) ==
    IF n \in visiting \/ n \in visited
    THEN \* Cut (back edge, warning printed) or already done: immediate return
         /\ UNCHANGED <<visited, visiting, sorted>>
         /\ stack' = stack
    ELSE /\ visiting' = visiting \cup {n}
         /\ stack' = Append(stack, [node |-> n, left |-> deps[n]])
         /\ UNCHANGED <<visited, sorted>>

\* for type_name in types { if !visited.contains(type_name) { visit } }
OuterPick(n) ==
    /\ pc = "outer" /\ stack = <<>> /\ n \in outerLeft
    /\ outerLeft' = outerLeft \ {n}
    /\ IF n \in visited
       THEN UNCHANGED <<stack, visited, visiting, sorted>>
       ELSE /\ visiting' = visiting \cup {n}          \* cannot be visiting: stack empty
            /\ stack' = Append(stack, [node |-> n, left |-> deps[n]])
            /\ UNCHANGED <<visited, sorted>>
    /\ UNCHANGED <<deps, requested, pc>>

\* for dep in deps { self.topological_visit(dep, ...) }  -- one iteration
Descend(d) ==
    /\ stack # <<>>
    /\ LET top == stack[Len(stack)] IN
       /\ d \in top.left
       /\ LET popped == [stack EXCEPT ![Len(stack)].left = top.left \ {d}] IN
          IF d \in visiting \/ d \in visited
          THEN /\ stack' = popped
               /\ UNCHANGED <<visited, visiting, sorted>>
          ELSE /\ visiting' = visiting \cup {d}
               /\ stack' = Append(popped, [node |-> d, left |-> deps[d]])
               /\ UNCHANGED <<visited, sorted>>
    /\ UNCHANGED <<deps, requested, outerLeft, pc>>

\* visiting.remove; visited.insert; sorted.push
Finish ==
    /\ stack # <<>>
    /\ LET top == stack[Len(stack)] IN
       /\ top.left = {}
       /\ visiting' = visiting \ {top.node}
       /\ visited' = visited \cup {top.node}
       /\ sorted' = Append(sorted, top.node)
       /\ stack' = SubSeq(stack, 1, Len(stack) - 1)
    /\ UNCHANGED <<deps, requested, outerLeft, pc>>

DfsDone ==
    /\ pc = "outer" /\ stack = <<>> /\ outerLeft = {}
    /\ pc' = "done"
    /\ UNCHANGED <<deps, requested, outerLeft, stack, visited, visiting, sorted>>

DfsNext ==
    \/ \E n \in Nodes : OuterPick(n)
    \/ \E d \in Nodes : Descend(d)
    \/ Finish
    \/ DfsDone

DfsSpec == DfsInit /\ [][DfsNext]_dfsVars /\ WF_dfsVars(DfsNext)

\* Invariants of the as-built DFS (checked by TLC for every order)
DfsTypeOK ==
    /\ visited \subseteq Nodes /\ visiting \subseteq Nodes
    /\ visited \cap visiting = {}
    /\ Range(sorted) = visited
    /\ visiting = {stack[i].node : i \in DOMAIN stack}

DfsContractHolds == pc = "done" => TopoContract(deps, requested, sorted)

\* Termination measure: strictly decreases on every step, so the machine
\* cannot run forever (checked as an action property by TLC).
RECURSIVE SumLeft(_)
SumLeft(st) == IF st = <<>> THEN 0 ELSE Cardinality(Head(st).left) + SumLeft(Tail(st))
Measure == (IF pc = "done" THEN 0 ELSE 1)
           + Cardinality(outerLeft)
           + 2 * Cardinality(Nodes \ (visited \cup visiting)) * (Cardinality(Nodes) + 1)
           + Len(stack) + SumLeft(stack)
           + Cardinality(Nodes \ visited)
DfsTerminates == [][Measure' < Measure]_dfsVars
DfsEventuallyDone == <>(pc = "done")
=============================================================================
