"""Statement-level parser and abstract interpreter for generated command wrappers (X03).

parse_function(chunk) -> statement AST of an `export async function ...` item (try / catch / finally, if / else,
const, throw, return, expression statements; expressions by lib/tsparse.Parser).
run(stmts, env, params) interprets the body with JavaScript semantics for exceptions (try/catch/finally, a throwing
finally replaces the pending completion) against an abstract environment:
  <anything>.safeParse(x)   -> observable "validate", result {success, data, error} per env["val"]
  invoke(name, args?)       -> observable "invoke" (argument classified), resolves / rejects per env["inv"]
  hooks?.<name>?.(arg)      -> observable <name> when the hook is present, throws when env says so
and returns the list of observable events [{what, arg}] ending with return / throw.
Anything it does not understand raises Unsupported: the wrapper no longer has the shape the specification models.
"""
from lib import tsparse as T


class Unsupported(Exception):
    pass


class JsThrow(Exception):
    def __init__(self, value):
        self.value = value


class ReturnSignal(Exception):
    def __init__(self, value):
        self.value = value


# ----------------------------------------------------------------------------- parsing

def _body_tokens(src):
    toks = T.tokenize(src)
    toks = [t for t in toks if t.k != "eof"]
    # the body is the last balanced {...} of the item
    j = len(toks) - 1
    while j >= 0 and not (toks[j].k == "p" and toks[j].v == "}"):
        j -= 1
    if j < 0:
        raise Unsupported("no function body")
    depth = 0
    i = j
    while i >= 0:
        t = toks[i]
        if t.k == "p" and t.v == "}":
            depth += 1
        elif t.k == "p" and t.v == "{":
            depth -= 1
            if depth == 0:
                break
        i -= 1
    if i < 0:
        raise Unsupported("unbalanced function body")
    return toks[i + 1:j]


class SP:
    def __init__(self, toks, src):
        self.toks = toks + [T.Tok("eof", "", toks[-1].pos + 1 if toks else 0)]
        self.i = 0
        self.src = src

    def peek(self, o=0):
        return self.toks[min(self.i + o, len(self.toks) - 1)]

    def at_p(self, v):
        t = self.peek()
        return t.k == "p" and t.v == v

    def at_id(self, v):
        t = self.peek()
        return t.k == "id" and t.v == v

    def eat_p(self, v):
        if not self.at_p(v):
            raise Unsupported("expected %r at %d, found %r" % (v, self.peek().pos, self.peek().v))
        self.i += 1

    def expr(self):
        p = T.Parser(self.toks)
        p._src = self.src
        p.i = self.i
        try:
            e = p.parse_expr()
        except T.ParseError as ex:
            raise Unsupported("expression: %s" % ex.msg)
        self.i = p.i
        return e

    def block(self):
        self.eat_p("{")
        out = []
        while not self.at_p("}"):
            if self.peek().k == "eof":
                raise Unsupported("unterminated block")
            out.append(self.stmt())
        self.eat_p("}")
        return out

    def stmt(self):
        if self.at_p("{"):
            return {"s": "block", "body": self.block()}
        if self.at_p(";"):
            self.i += 1
            return {"s": "empty"}
        if self.at_id("try"):
            self.i += 1
            body = self.block()
            cvar, cbody, fbody = None, None, None
            if self.at_id("catch"):
                self.i += 1
                if self.at_p("("):
                    self.i += 1
                    cvar = self.peek().v
                    self.i += 1
                    if self.at_p(":"):      # catch (e: unknown)
                        self.i += 1
                        p = T.Parser(self.toks)
                        p.i = self.i
                        p.parse_type()
                        self.i = p.i
                    self.eat_p(")")
                cbody = self.block()
            if self.at_id("finally"):
                self.i += 1
                fbody = self.block()
            if cbody is None and fbody is None:
                raise Unsupported("try without catch or finally")
            return {"s": "try", "body": body, "cvar": cvar, "catch": cbody, "finally": fbody}
        if self.at_id("if"):
            self.i += 1
            self.eat_p("(")
            c = self.expr()
            self.eat_p(")")
            th = self.stmt()
            el = None
            if self.at_id("else"):
                self.i += 1
                el = self.stmt()
            return {"s": "if", "c": c, "then": th, "else": el}
        if self.at_id("const") or self.at_id("let") or self.at_id("var"):
            self.i += 1
            name = self.peek().v
            self.i += 1
            if self.at_p(":"):
                self.i += 1
                p = T.Parser(self.toks)
                p.i = self.i
                p.parse_type()
                self.i = p.i
            init = None
            if self.at_p("="):
                self.i += 1
                init = self.expr()
            if self.at_p(";"):
                self.i += 1
            return {"s": "const", "n": name, "e": init}
        if self.at_id("throw"):
            self.i += 1
            e = self.expr()
            if self.at_p(";"):
                self.i += 1
            return {"s": "throw", "e": e}
        if self.at_id("return"):
            self.i += 1
            e = None
            if not self.at_p(";") and not self.at_p("}"):
                e = self.expr()
            if self.at_p(";"):
                self.i += 1
            return {"s": "return", "e": e}
        for kw in ("for", "while", "do", "switch", "function", "class"):
            if self.at_id(kw):
                raise Unsupported("statement %s" % kw)
        e = self.expr()
        if self.at_p(";"):
            self.i += 1
        return {"s": "expr", "e": e}


def parse_function(chunk):
    toks = _body_tokens(chunk)
    sp = SP(toks, chunk)
    out = []
    while sp.peek().k != "eof":
        out.append(sp.stmt())
    return out


# ----------------------------------------------------------------------------- interpretation

class Val:
    """abstract values"""
    def __init__(self, tag, fields=None):
        self.tag = tag
        self.fields = fields or {}

    def __repr__(self):
        return "<%s>" % self.tag


UNDEF = Val("undefined")


class Machine:
    def __init__(self, env, has_hooks_param=True):
        self.env = env
        self.log = []
        self.scope = {"params": Val("params"), "undefined": UNDEF}
        hooks = {}
        for h, mode in env["hook"].items():
            if mode != "absent":
                hooks[h] = Val("hookfn:" + h)
        self.scope["hooks"] = Val("hooks", hooks) if has_hooks_param else UNDEF
        self.scope["ZodError"] = Val("class:ZodError")

    # -- expressions
    def ev(self, e):
        k = e["k"]
        if k == "id":
            n = e["n"]
            if n in self.scope:
                return self.scope[n]
            if n in ("invoke",):
                return Val("fn:invoke")
            if n == "types":
                return Val("ns:types")
            raise Unsupported("unbound identifier %s" % n)
        if k in ("str", "num"):
            return Val("lit")
        if k == "paren":
            return self.ev(e["e"])
        if k == "unary":
            if e["op"] == "await":
                return self.ev(e["e"])
            if e["op"] == "!":
                return Val("true") if not self.truthy(self.ev(e["e"])) else Val("false")
            raise Unsupported("unary %s" % e["op"])
        if k == "bin":
            if e["op"] == "instanceof":
                l = self.ev(e["l"])
                r = self.ev(e["r"])
                return Val("true") if (r.tag == "class:ZodError" and l.tag == "err:zod") else Val("false")
            if e["op"] in ("&&", "||"):
                l = self.ev(e["l"])
                if e["op"] == "&&":
                    return self.ev(e["r"]) if self.truthy(l) else l
                return l if self.truthy(l) else self.ev(e["r"])
            raise Unsupported("binary %s" % e["op"])
        if k == "member":
            o = self.ev(e["o"])
            if o.tag in ("undefined",):
                if e.get("opt"):
                    return UNDEF
                raise JsThrow(Val("err:typeerror"))
            if o.tag == "ns:types":
                return Val("schema:" + e["p"])
            if e["p"] in o.fields:
                return o.fields[e["p"]]
            if o.tag == "params":
                return Val("param-member")
            if o.tag in ("result", "hooks"):
                return UNDEF
            return Val("member:%s.%s" % (o.tag, e["p"]))
        if k == "index":
            o = self.ev(e["o"])
            return Val("param-member") if o.tag == "params" else Val("indexed")
        if k == "objlit":
            parts = set()
            for p in e["ps"]:
                if p["k"] == "spread":
                    v = self.ev(p["e"])
                    parts.add("validated" if v.tag == "validated" else ("params" if v.tag == "params" else "other"))
                else:
                    v = self.ev(p["v"])
                    parts.add("channels" if v.tag == "param-member" else "other")
            return Val("obj:" + "+".join(sorted(parts)))
        if k == "call":
            return self.call(e)
        raise Unsupported("expression kind %s" % k)

    def truthy(self, v):
        return v.tag not in ("undefined", "false", "null")

    def call(self, e):
        f = e["f"]
        # hooks?.name?.(arg)
        if f["k"] == "member" and f["o"].get("k") == "id" and f["o"]["n"] == "hooks":
            hooks = self.scope["hooks"]
            name = f["p"]
            if hooks.tag == "undefined" or name not in hooks.fields:
                if e.get("opt") or True:
                    # evaluate no arguments (optional call short-circuits)
                    return UNDEF
            args = [self.ev(a) for a in e["as"]]
            arg = "nothing"
            if args:
                a = args[0]
                arg = {"err:zod": "zod", "err:invoke": "invoke", "err:hook": "hook", "data": "data"}.get(a.tag, a.tag)
            self.log.append({"what": name, "arg": arg})
            if self.env["hook"].get(name) == "throws":
                raise JsThrow(Val("err:hook"))
            return UNDEF
        # <schema>.safeParse(x)
        if f["k"] == "member" and f["p"] == "safeParse":
            o = self.ev(f["o"])
            if not o.tag.startswith("schema:"):
                raise Unsupported("safeParse on %s" % o.tag)
            args = [self.ev(a) for a in e["as"]]
            self.log.append({"what": "validate", "arg": args[0].tag if args else "nothing"})
            ok = self.env["val"] == "ok"
            return Val("result", {"success": Val("true") if ok else Val("false"),
                                  "data": Val("validated") if ok else UNDEF,
                                  "error": UNDEF if ok else Val("err:zod")})
        if f["k"] == "id" and f["n"] == "invoke":
            args = [self.ev(a) for a in e["as"]]
            if len(args) < 2:
                arg = "nothing"
            else:
                a = args[1]
                arg = {"params": "params", "validated": "validated", "obj:channels+validated": "validated+channels",
                       "obj:channels+params": "params"}.get(a.tag, a.tag)
            self.log.append({"what": "invoke", "arg": arg})
            if self.env["inv"] == "resolve":
                return Val("data")
            raise JsThrow(Val("err:invoke"))
        raise Unsupported("call of %s" % (f.get("n") or f.get("p") or f["k"]))

    # -- statements
    def run_block(self, stmts):
        for s in stmts:
            self.run_stmt(s)

    def run_stmt(self, s):
        k = s["s"]
        if k == "empty":
            return
        if k == "block":
            return self.run_block(s["body"])
        if k == "expr":
            self.ev(s["e"])
            return
        if k == "const":
            self.scope[s["n"]] = self.ev(s["e"]) if s["e"] is not None else UNDEF
            return
        if k == "throw":
            raise JsThrow(self.ev(s["e"]))
        if k == "return":
            raise ReturnSignal(self.ev(s["e"]) if s["e"] is not None else UNDEF)
        if k == "if":
            if self.truthy(self.ev(s["c"])):
                self.run_stmt(s["then"])
            elif s["else"] is not None:
                self.run_stmt(s["else"])
            return
        if k == "try":
            # Python's try/except/finally has the completion semantics of JavaScript's: a completion of the finally
            # block (throw / return) replaces the pending one, otherwise the pending one proceeds
            try:
                try:
                    self.run_block(s["body"])
                except JsThrow as t:
                    if s["catch"] is None:
                        raise
                    if s["cvar"]:
                        self.scope[s["cvar"]] = t.value
                    self.run_block(s["catch"])
            finally:
                if s["finally"] is not None:
                    self.run_block(s["finally"])
            return
        raise Unsupported("statement %s" % k)


def run(stmts, env, has_hooks_param=True):
    m = Machine(env, has_hooks_param)
    try:
        m.run_block(stmts)
        m.log.append({"what": "return", "arg": "undefined"})
    except ReturnSignal as r:
        m.log.append({"what": "return", "arg": "data" if r.value.tag == "data" else r.value.tag})
    except JsThrow as t:
        m.log.append({"what": "throw", "arg": {"err:zod": "zod", "err:invoke": "invoke", "err:hook": "hook"}.get(t.value.tag, t.value.tag)})
    return m.log
