---------------------------- MODULE Gen_BuildWatch ----------------------------
(* Case generator for X05; also checks the as-built table against the safety statement it does satisfy
   (ModelSafe) and shows that it does not satisfy OutputWatched (negative control cfg).                    *)
EXTENDS BuildWatch, Json, TLC
VARIABLE c
Cases == [conf : Confs, tg : Tgs, out : BOOLEAN]
Init == c \in Cases
Next == UNCHANGED c
ModelSafe == InputsWatched(c, Expected(c))
ModelOutputWatched == OutputWatched(c, Expected(c))
Emit == PrintT(<<"REPLAY", ToJson(c)>>)
=============================================================================
