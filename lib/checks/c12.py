"""C12 - one correctly named, correctly subscribed listener per emitted event.

TLC enumerates (spec/Gen_Project.tla Mode "emits") the position of the emit call as a tail form (expression
statement with / without semicolon, let initialiser, match arm expression, under ? and .await, receiver of
.unwrap()/.ok(), `return e`, a condition) inside a path of enclosing frames (if / else / else-if / else-if-else /
if-let, match arm block, loop / labelled loop / while / while-let / for, nested and labelled blocks, let-initialiser
if / match, and the undocumented unsafe block, async block, closure, nested fn): the full product with 8 receivers
(app / window / webview variables, fields of those names, a method-call result, and two undocumented ones) x
{emit, emit_to} x {literal, non-literal name} at depth <= 1, every frame pair x tail at depth 2, every frame triple
in the thorough tier, and
(spec/Gen_Names.tla Mode "events") every event name over Tauri's alphabet [aB1-/:_] up to length 3.
Each case is one top-level function of a real project; both modes are generated; Trace_Project.tla (Listeners)
judges with Project!EventNames / OptionalNames: exactly one listener per distinct required name (names on
undocumented receivers / placements may or may not have one), subscribed to exactly that name, under a legal and
unique function identifier; no events => no events.ts and no re-export.  Payload types of the documented payload
forms are judged by Trace_Types (TypeLang) and `unknown` is required where the type is not evident; the same forms
over names the configuration maps (type_mappings) must be typed with the mapping's target in both modes.
"""
import json
import os
import random
import re
import shutil
import time
from concurrent.futures import ThreadPoolExecutor

from lib import common as C
from lib import projcases as PC
from lib import tsprint

PROP = "C12"


def cs(seq):
    return "".join(seq)


PAYLOAD_FORMS = [
    # (id, extra fn params, statements before emit, payload expr, expected rust type AST or "unknown")
    ("lit_str", "", "", '"hello"', {"k": "leaf", "c": "str"}),
    ("lit_int", "", "", "42", {"k": "leaf", "c": "num"}),
    ("lit_float", "", "", "1.5", {"k": "leaf", "c": "num"}),
    ("lit_bool", "", "", "true", {"k": "leaf", "c": "bool"}),
    ("struct_expr", "", "", "Pay { v: 1 }", {"k": "named", "n": "Pay"}),
    ("typed_param", "p: Pay", "", "p", {"k": "named", "n": "Pay"}),
    ("typed_param_ref", "p: &Pay", "", "p", {"k": "named", "n": "Pay"}),
    ("typed_param_vec", "ps: Vec<Pay>", "", "ps", {"k": "vec", "a": {"k": "named", "n": "Pay"}}),
    ("typed_param_opt", "po: Option<Pay>", "", "po", {"k": "opt", "a": {"k": "named", "n": "Pay"}}),
    ("typed_param_map", "pm: HashMap<String, Pay>", "", "pm", {"k": "hmap", "a": {"k": "leaf", "c": "str"}, "b": {"k": "named", "n": "Pay"}}),
    ("typed_param_num", "n8: u8", "", "n8", {"k": "leaf", "c": "num"}),
    ("typed_let", "", "let tl: Pay = make();", "tl", {"k": "named", "n": "Pay"}),
    ("borrow", "p2: Pay", "", "&p2", {"k": "named", "n": "Pay"}),
    ("clone", "p3: Pay", "", "p3.clone()", {"k": "named", "n": "Pay"}),
    ("unit", "", "", "()", {"k": "leaf", "c": "unit"}),
    ("call_result", "", "", "make()", "unknown"),
    ("untyped_let", "", "let ul = make();", "ul", "unknown"),
    ("method_result", "p4: Pay", "", "p4.summary()", "unknown"),
    # forms whose type is not syntactically evident -> unknown
    ("qualified_call", "", "", "snapshot::current()", "unknown"),
    ("assoc_call", "", "", "Pay::make()", "unknown"),
    ("deep_call", "", "", "uuid::Uuid::new_v4()", "unknown"),
    ("macro_call", "", "", "format!(\"x{}\", 1)", "unknown"),
    ("field_access", "p5: Pay", "", "p5.v", "unknown"),
    ("index_expr", "ps2: Vec<Pay>", "", "ps2[0]", "unknown"),
    ("if_expr", "fl: bool", "", "if fl { 1 } else { 2 }", "unknown"),
    ("cast_expr", "n9: u8", "", "n9 as u64", "unknown"),
    ("tuple_expr", "p7: Pay", "", "(1, p7)", "unknown"),
    ("array_expr", "", "", "[1, 2]", "unknown"),
    ("vec_macro", "p10: Pay", "", "vec![p10]", "unknown"),
    ("some_call", "", "", "Some(1)", "unknown"),
    ("untyped_let_qualified", "", "let ulq = snapshot::current();", "ulq", "unknown"),
    ("untyped_let_deep", "", "let uld = crate::snapshot::current();", "uld", "unknown"),
    # evident through another spelling
    ("qualified_struct", "", "", "crate::Pay { v: 1 }", {"k": "named", "n": "Pay"}),
    ("ref_clone", "p8: Pay", "", "&p8.clone()", {"k": "named", "n": "Pay"}),
    ("typed_let_qualified", "", "let tlq: crate::Pay = make();", "tlq", {"k": "named", "n": "Pay"}),
    ("typed_param_tuple", "tp: (u8, Pay)", "", "tp", {"k": "tup", "ts": [{"k": "leaf", "c": "num"}, {"k": "named", "n": "Pay"}]}),
    # an annotated let: the annotation is the type, whatever the initialiser looks like (a constructor of another owner,
    # a trait function, a conversion, a literal of another type's variant)
    ("annot_vec_new", "", "let mut av: Vec<Pay> = Vec::new();", "&av", {"k": "vec", "a": {"k": "named", "n": "Pay"}}),
    ("annot_default", "", "let ad: Pay = Default::default();", "ad", {"k": "named", "n": "Pay"}),
    ("annot_map_new", "", "let am: HashMap<String, Pay> = HashMap::new();", "am", {"k": "hmap", "a": {"k": "leaf", "c": "str"}, "b": {"k": "named", "n": "Pay"}}),
    ("annot_assoc", "", "let aa: Pay = Pay::make();", "aa", {"k": "named", "n": "Pay"}),
    ("annot_none", "", "let an: Option<Pay> = None;", "an", {"k": "opt", "a": {"k": "named", "n": "Pay"}}),
    ("annot_module_fn", "", "let af: Pay = snapshot::current();", "af", {"k": "named", "n": "Pay"}),
    ("annot_into", "p11: Pay", "let ai: Pay = p11.into();", "ai", {"k": "named", "n": "Pay"}),
    ("annot_num_from", "", "let au: u64 = u64::from(3u8);", "au", {"k": "leaf", "c": "num"}),
    ("annot_string_new", "", "let a_s: String = String::new();", "a_s", {"k": "leaf", "c": "str"}),
    ("annot_struct_lit_other", "", "let ab: Vec<Pay> = vec![Pay { v: 1 }];", "ab.clone()", {"k": "vec", "a": {"k": "named", "n": "Pay"}}),
]

# the same documented forms where the evident type is, or contains, a name the configuration maps (C05 through the
# configured type mappings): the listener's payload type is the mapping's target, in both modes
M_STAMP = {"k": "mapped", "n": "Stamp", "base": "Stamp", "to": "number"}
M_LABEL = {"k": "mapped", "n": "Label", "base": "Label", "to": "string"}
PAYLOAD_MAPPINGS = {"Stamp": "number", "Label": "string"}
MAPPED_PAYLOAD_FORMS = [
    ("m_struct_expr", "", "", "Stamp { v: 1 }", M_STAMP),
    ("m_typed_param", "s1: Stamp", "", "s1", M_STAMP),
    ("m_typed_param_ref", "s2: &Label", "", "s2", M_LABEL),
    ("m_typed_param_vec", "s3: Vec<Stamp>", "", "s3", {"k": "vec", "a": M_STAMP}),
    ("m_typed_param_opt", "s4: Option<Label>", "", "s4", {"k": "opt", "a": M_LABEL}),
    ("m_typed_param_map", "s5: HashMap<String, Stamp>", "", "s5", {"k": "hmap", "a": {"k": "leaf", "c": "str"}, "b": M_STAMP}),
    ("m_typed_param_tuple", "s6: (Label, Stamp)", "", "s6", {"k": "tup", "ts": [M_LABEL, M_STAMP]}),
    ("m_typed_param_mixed", "s7: Vec<(Pay, Stamp)>", "", "s7", {"k": "vec", "a": {"k": "tup", "ts": [{"k": "named", "n": "Pay"}, M_STAMP]}}),
    ("m_typed_let", "", "let s8: Stamp = stamp();", "s8", M_STAMP),
    ("m_borrow", "s9: Label", "", "&s9", M_LABEL),
    ("m_clone", "s10: Stamp", "", "s10.clone()", M_STAMP),
    ("m_unmapped", "s11: Vec<Pay>", "", "s11", {"k": "vec", "a": {"k": "named", "n": "Pay"}}),
]


def payload_project(forms):
    """one emitting function per payload form -> (rust source, abstract emits)"""
    psrc = PC.EMIT_PRELUDE + "use tauri::Emitter;\n#[derive(Serialize, Deserialize, Clone)]\npub struct Pay {\n    pub v: i32,\n}\nimpl Pay {\n    pub fn make() -> Pay { Pay { v: 0 } }\n    pub fn summary(&self) -> String { String::new() }\n}\nmod snapshot {\n    pub fn current() -> super::Pay { super::Pay { v: 1 } }\n}\nfn make() -> Pay { Pay { v: 0 } }\n"
    pemits = []
    for j, (pid, params, pre, expr, exp) in enumerate(forms):
        psrc += "pub fn pay_%s(app: tauri::AppHandle%s) {\n    %s\n    app.emit(\"pay-%s\", %s).ok();\n}\n" % (
            pid, (", " + params) if params else "", pre, pid.replace("_", "-"), expr)
        pemits.append({"name": "pay-" + pid.replace("_", "-"), "receiver": "app", "placed": "ok_recv", "frames": [], "lit": True})
    psrc += "#[tauri::command]\npub fn keep_pay(p: Pay) {}\n"
    return psrc, pemits


def listeners_event(b, texts, emits, case):
    ls = PC.observe_listeners(b)
    reexp = []
    if b and b.index:
        for it in b.index.items:
            if it["k"] == "exportstar":
                reexp.append(it["from"])
    return {"event": "Listeners", "case": case, "emits": emits,
            "listeners": [{"fn": l["fn"], "subscribed": l["subscribed"], "legal": l["legal"]} for l in ls],
            "eventsWritten": "events.ts" in texts, "eventsReexported": any(r.endswith("events") for r in reexp)}, ls


def run(tier, seed):
    t0 = time.time()
    d = C.scratch("c12")
    verdicts = C.Verdicts(PROP)
    emit_cases = C.run_tlc("Gen_Project", "Gen_Project_emits" if tier == "quick" else "Gen_Project_emits3", workers=4, timeout=900).json_lines("REPLAY")
    name_cases = C.run_tlc("Gen_Names", "Gen_Names_events", workers=2, timeout=600).json_lines("REPLAY")
    if len(emit_cases) < 10000 or len(name_cases) < 390:
        raise C.ToolError("emit case generation incomplete: %d %d" % (len(emit_cases), len(name_cases)))
    rnd = random.Random(seed)
    rnd.shuffle(emit_cases)
    rnd.shuffle(name_cases)
    projects = []     # (id, source text, abstract emits)
    # (1) placements x receivers x methods
    for bi in range(0, len(emit_cases), 64):
        src = PC.EMIT_PRELUDE + "use tauri::Emitter;\n"
        emits = []
        for j, c in enumerate(emit_cases[bi:bi + 64]):
            i = bi + j
            name = "ev%d-x" % i
            src += PC.emit_fn(i, c, name=name)
            emits.append({"name": name, "receiver": c["receiver"], "placed": c["placed"], "frames": list(c.get("frames") or []), "lit": bool(c["lit"])})
        projects.append(("place%d" % bi, src, emits))
    # (2) event names over Tauri's alphabet, packed so that names that collide after identifier derivation meet
    std = {"receiver": "app", "placed": "ok_recv", "frames": [], "method": "emit", "lit": True}
    for bi in range(0, len(name_cases), 60):
        src = PC.EMIT_PRELUDE + "use tauri::Emitter;\n"
        emits = []
        for j, c in enumerate(name_cases[bi:bi + 60]):
            nm = cs(c["name"])
            src += PC.emit_fn(5000 + bi + j, std, name=nm)
            emits.append({"name": nm, "receiver": "app", "placed": "ok_recv", "frames": [], "lit": True})
        projects.append(("names%d" % bi, src, emits))
    # (3) repeated emission of one name from several functions and files; (4) a project without events
    src = PC.EMIT_PRELUDE + "use tauri::Emitter;\n"
    emits = []
    for j in range(3):
        src += PC.emit_fn(8000 + j, std, name="same-name")
        emits.append({"name": "same-name", "receiver": "app", "placed": "ok_recv", "frames": [], "lit": True})
    src += PC.emit_fn(8010, dict(std, method="emit_to"), name="same-name")
    emits.append({"name": "same-name", "receiver": "app", "placed": "ok_recv", "frames": [], "lit": True})
    projects.append(("repeat", src, emits))
    projects.append(("noevents", PC.EMIT_PRELUDE, []))
    # (5) payload forms
    psrc, pemits = payload_project(PAYLOAD_FORMS)
    projects.append(("payloads", psrc, pemits))
    # (6) the same with configured type mappings
    msrc = psrc + "#[derive(Serialize, Deserialize, Clone)]\npub struct Stamp {\n    pub v: i64,\n}\n#[derive(Serialize, Deserialize, Clone)]\npub struct Label {\n    pub v: String,\n}\nfn stamp() -> Stamp { Stamp { v: 0 } }\n"
    memits = list(pemits)
    for j, (pid, params, pre, expr, exp) in enumerate(MAPPED_PAYLOAD_FORMS):
        msrc += "pub fn pay_%s(app: tauri::AppHandle%s) {\n    %s\n    app.emit(\"pay-%s\", %s).ok();\n}\n" % (
            pid, (", " + params) if params else "", pre, pid.replace("_", "-"), expr)
        memits.append({"name": "pay-" + pid.replace("_", "-"), "receiver": "app", "placed": "ok_recv", "frames": [], "lit": True})
    projects.append(("payloads_mapped", msrc, memits))

    def work(job):
        (pid, src, emits), mode = job
        b, res, texts = PC.run_project(d, "%s-%s" % (pid, mode), {"src/lib.rs": src}, mode=mode,
                                       extra_cfg={"type_mappings": PAYLOAD_MAPPINGS} if pid == "payloads_mapped" else None)
        ev, ls = listeners_event(b, texts, emits, "%s/%s" % (pid, mode))
        ev["status"] = res.status
        return ev, ls, pid, mode
    jobs = [(p, m) for p in projects for m in ("none", "zod")]
    events = []
    payload_obs = []
    with ThreadPoolExecutor(max_workers=10) as ex:
        for ev, ls, pid, mode in ex.map(work, jobs):
            events.append(ev)
            if pid == "payloads":
                payload_obs.append((mode, ls, PAYLOAD_FORMS))
            elif pid == "payloads_mapped":
                payload_obs.append((mode, ls, MAPPED_PAYLOAD_FORMS))
    evs = [{k: v for k, v in e.items() if k != "status"} for e in events]
    for e in evs:
        if not e["emits"]:
            e["emits"] = []
    mism = PC.validate_project_trace(d, evs, "c12", chunk=40)
    for idx, why in mism:
        ev = events[idx]
        txt = str(why)
        w = why if isinstance(why, list) else [txt]
        required = set(re.findall(r'"([^"]+)"', str(w[1]))) if len(w) > 1 else set()
        subs = set(re.findall(r'"([^"]+)"', str(w[3]))) if len(w) > 3 else set()
        illegal = set(re.findall(r'"([^"]+)"', str(w[7]))) if len(w) > 7 else set()
        by_name = {}
        for em in ev["emits"]:
            by_name.setdefault(em["name"], em)
        reported = False
        for nm in sorted(required - subs):
            em = by_name.get(nm, {})
            fr = "/".join(em.get("frames") or []) or "-"
            verdicts.reject("missing frames=%s placed=%s receiver=%s name~%s" % (fr, em.get("placed"), em.get("receiver"), name_shape(nm)), "no listener",
                            "event '%s' emitted at placement %s inside frames [%s] on receiver %s has no listener (mode %s)" % (nm, em.get("placed"), fr, em.get("receiver"), ev["case"]),
                            {"emit": em, "case": ev["case"]})
            reported = True
        opt = {e["name"] for e in ev["emits"] if e["name"] not in required}
        for nm in sorted(subs - required - opt):
            verdicts.reject("extra subscribed~%s" % name_shape(nm), "unexpected listener", "listener subscribed to '%s' which no documented emit uses (%s)" % (nm, ev["case"]), {"case": ev["case"]})
            reported = True
        for fn in sorted(illegal):
            verdicts.reject("illegal function name~%s" % name_shape(fn), "not an identifier",
                            "listener function name `%s` is not a legal identifier (%s)" % (fn, ev["case"]), {"case": ev["case"], "fn": fn})
            reported = True
        if not reported:
            nl = w[5] if len(w) > 5 else "?"
            verdicts.reject("listeners count/uniqueness case=%s" % ev["case"].split("/")[0].rstrip("0123456789"), "listeners=%s subscribed=%d" % (nl, len(subs)),
                            "listeners are not one-per-name / unique / events.ts presence wrong: %s" % txt[:400], {"case": ev["case"]})
    # payload types
    tevents = []
    tmeta = []
    for mode, ls, forms in payload_obs:
        by_sub = {l["subscribed"]: l for l in ls}
        for pid, params, pre, expr, exp in forms:
            l = by_sub.get("pay-" + pid.replace("_", "-"))
            ts = l["payload"] if l else {"k": "missing"}
            if exp == "unknown":
                ok = ts.get("k") == "kw" and ts.get("n") == "unknown"
                if not ok:
                    verdicts.reject("payload form=%s expected=unknown" % pid, "emitted=%s" % tsprint.show(ts),
                                    "payload `%s` has no syntactically evident type, so the listener must use `unknown`; emitted `%s` (mode %s)" % (expr, tsprint.show(ts), mode),
                                    {"form": pid, "mode": mode})
            else:
                tevents.append({"event": "Translate", "case": "payload/%s/%s" % (pid, mode), "site": "event", "mode": mode, "lang": "ts",
                                "rust": exp, "ts": ts, "zod": {"k": "none"}})
                tmeta.append((pid, mode, expr, ts))
    if tevents:
        p = os.path.join(d, "pay.ndjson")
        C.write_ndjson(p, tevents)
        consumed, mm, r = C.validate_trace("Trace_Types", "Trace_Types", p)
        for m in mm:
            pid, mode, expr, ts = tmeta[m[1] - 1]
            verdicts.reject("payload form=%s" % pid, "emitted=%s" % tsprint.show(ts),
                            "payload `%s` (form %s, mode %s) is typed `%s`, not the translation of its Rust type" % (expr, pid, mode, tsprint.show(ts)),
                            {"form": pid, "mode": mode})
    rc = verdicts.finish()
    C.write_evidence(PROP, tier, seed, "exploration", {
        "evaluations": (len(emit_cases) + len(name_cases) + len(PAYLOAD_FORMS) + len(MAPPED_PAYLOAD_FORMS)) * 2,
        "distinct_nontrivial": len(emit_cases) + len(name_cases) + len(PAYLOAD_FORMS) + len(MAPPED_PAYLOAD_FORMS),
        "rule": "one evaluation = one emit case (frame path x tail form x receiver x method x literal-ness, or one event name over [aB1-/:_] up to length 3, or one "
                "payload form) in one mode; judged per generated project by TLC (Listeners) / per payload (Translate)",
        "samples": emit_cases[:3] + [{"name": cs(c["name"])} for c in name_cases[:3]],
        "projects_generated": len(events), "traces_validated_against_impl": len(events) + len(tevents),
        "known_findings_matched": len(verdicts.known_hit),
        "exhaustive": True,
    }, time.time() - t0, assumptions=["emits inside a closure body, a nested fn, an async block or an unsafe block, in `return e` or in a condition are neither required nor forbidden to produce a listener",
                                      "emit(..).await is accepted syntactically although Tauri's emit is not async"],
        violations=len(verdicts.violations))
    shutil.rmtree(d, ignore_errors=True)
    return rc


def name_shape(n):
    f = []
    for ch, tag in ((":", "colon"), ("/", "slash"), ("-", "dash"), ("_", "underscore")):
        if ch in n:
            f.append(tag)
    if n[:1].isdigit():
        f.append("digit-first")
    if n[:1] in "-/:_":
        f.append("punct-first")
    if re.search(r"\d", n[1:]):
        f.append("digit")
    return "+".join(f) or "plain"


def replay(path, seed):
    return run("quick", seed)
