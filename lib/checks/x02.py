"""X02 (beyond the listed properties) - project detection of the build driver.

spec/Scanner.tla transcribes ProjectScanner::detect_project / check_directory / get_recommended_output_path as a
function `Detect` over an abstract chain of directories (and states what any scanner must satisfy, `NearestWins`,
which TLC checks of `Detect` on every enumerated chain).  spec/Gen_Scanner.tla enumerates every chain of length <= 2
over the 48 directory kinds and every chain of length 3 that starts outside a project (6 960 chains); the harness
(`tth scan`) builds each as a real directory tree, runs the REAL scanner (library API) in it, and Trace_Scanner
requires the report to equal Detect(chain).  Not registered in MANIFEST.json (decides none of the 20 listed
properties); a rejection prints `EXTRA-VIOLATION` and exits 1.
"""
import json
import os
import shutil
import time

from lib import common as C

PROP = "X02"


def run(tier, seed):
    t0 = time.time()
    d = C.scratch("x02")
    g = C.run_tlc("Gen_Scanner", "Gen_Scanner", workers=4, timeout=900)
    if not g.ok:
        raise C.ToolError("Scanner model violates NearestWins: %s" % g.error)
    cases = g.json_lines("REPLAY")
    if len(cases) < 6960:
        raise C.ToolError("scanner case generation incomplete: %d" % len(cases))
    cp = os.path.join(d, "cases.ndjson")
    C.write_ndjson(cp, cases)
    op = os.path.join(d, "obs.ndjson")
    p = C.sh([C.TTH, "scan", cp, os.path.join(d, "trees"), op], timeout=1200)
    if p.returncode != 0:
        raise C.ToolError("tth scan failed: " + p.stderr.decode()[-500:])
    n = sum(1 for _ in open(op))
    if n != len(cases):
        raise C.ToolError("tth scan observed %d of %d cases" % (n, len(cases)))
    # binding self-test: two corrupted copies of accepted observations must be the only extra rejections
    evs = [json.loads(x) for x in open(op)]
    f = next(e for e in evs if e["observed"]["found"] and e["observed"]["level"] == 2)
    bad1 = json.loads(json.dumps(f)); bad1["observed"]["level"] = 1; bad1["case"] = "selftest-level"
    bad2 = json.loads(json.dumps(f)); bad2["observed"]["out"] = "./generated" if f["observed"]["out"] != "./generated" else "./src/generated"; bad2["case"] = "selftest-out"
    with open(op, "a") as fh:
        fh.write(json.dumps(bad1) + "\n" + json.dumps(bad2) + "\n")
    consumed, mism, r = C.validate_trace("Trace_Scanner", "Trace_Scanner", op, timeout=900)
    if not consumed:
        raise C.ToolError("scanner trace not consumed\n" + r.out[-1500:])
    st = [m for m in mism if m[1] > n]
    if sorted(m[1] for m in st) != [n + 1, n + 2]:
        raise C.ToolError("binding self-test of Trace_Scanner failed: %s" % st)
    mism = [m for m in mism if m[1] <= n]
    for m in mism[:20]:
        print("EXTRA-VIOLATION check=X02 %s" % str(m)[:500])
    os.makedirs(os.path.join(C.WORK, "extra"), exist_ok=True)
    with open(os.path.join(C.WORK, "extra", "X02.json"), "w") as f:
        json.dump({"check": "X02", "chains": len(cases), "validated": n, "rejected": len(mism), "wall_s": round(time.time() - t0, 1)}, f, indent=1)
    shutil.rmtree(d, ignore_errors=True)
    return 1 if mism else 0


def replay(path, seed):
    return run("quick", seed)
