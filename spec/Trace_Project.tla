---------------------------- MODULE Trace_Project ----------------------------
(***************************************************************************)
(* Trace validation for the project/module-level properties:               *)
(*   Discovery (C03)  Project!C03_Holds(files, wrappers)                   *)
(*   Reach     (C07)  Project!C07_Holds(types, roots, declared)            *)
(*   Viz       (X01)  Project!X01_Holds: dependency-graph.dot vs types     *)
(*   Modules   (C02)  Output!Closed, NoDuplicateExports, IndexMatches      *)
(*   Order     (C09)  Output!DefinedBeforeUse on the Zod types module      *)
(*   Listeners (C12)  one listener per distinct event name, subscribed to  *)
(*                    that name, unique legal function names               *)
(***************************************************************************)
EXTENDS Json, IOUtils, Sequences, Naturals, FiniteSets, TLC

P == INSTANCE Project
O == INSTANCE Output

Rec == ndJsonDeserialize(IOEnv.TRACE)
VARIABLE l

ASet(s) == {s[i] : i \in DOMAIN s}

Mods(e) == e.mods
AllUnresolved(e) == UNION {O!Unresolved(Mods(e), Mods(e)[f]) : f \in DOMAIN Mods(e)}
\* a declaration the parser could not read cannot be shown to be closed: its references are unknown
AllUnparsable(e) == UNION {{<<f, Mods(e)[f].decls[i].name>> : i \in {j \in DOMAIN Mods(e)[f].decls : Mods(e)[f].decls[j].kind = "unparsable"}}
                           : f \in DOMAIN Mods(e)}
AllDup(e) == UNION {{<<f, n>> : n \in O!DuplicateExports(Mods(e)[f])} : f \in DOMAIN Mods(e)}

ListenersOk(e) ==
    LET required == P!EventNames(e.emits)
        optional == P!OptionalNames(e.emits)
        subs == {e.listeners[i].subscribed : i \in DOMAIN e.listeners}
    IN /\ required \subseteq subs
       /\ subs \subseteq required \cup optional
       /\ Cardinality(subs) = Len(e.listeners)                                  \* one per distinct name
       /\ Cardinality({e.listeners[i].fn : i \in DOMAIN e.listeners}) = Len(e.listeners)  \* unique functions
       /\ \A i \in DOMAIN e.listeners : e.listeners[i].legal
       /\ (Len(e.emits) = 0 \/ required \cup (subs \cap optional) = {}) => ~e.eventsWritten
       /\ e.eventsWritten => e.eventsReexported

Judge(e) ==
    CASE e.event = "Discovery" -> P!C03_Holds(e.files, e.wrappers)
      [] e.event = "Reach"     -> P!C07_Holds(e.types, e.roots, e.declared)
      [] e.event = "Modules"   -> /\ AllUnresolved(e) = {}
                                  /\ AllUnparsable(e) = {}
                                  /\ AllDup(e) = {}
                                  /\ O!IndexMatches(e.reexports, e.written)
      [] e.event = "Order"     -> O!DefinedBeforeUse(e.module)
      [] e.event = "Listeners" -> ListenersOk(e)
      [] e.event = "Viz"       -> P!X01_Holds(e.types, e.roots, e.tnodes, e.tedges, e.cedges)
      [] OTHER -> FALSE

Why(e) ==
    CASE e.event = "Discovery" ->
            LET inv == {e.wrappers[i].invoke : i \in DOMAIN e.wrappers} IN
            <<"missing", P!Commands(e.files) \ inv, "extra", inv \ P!Commands(e.files),
              "wrappers", Len(e.wrappers), "distinct", Cardinality(inv)>>
      [] e.event = "Reach" ->
            <<"missing", P!Reachable(e.types, e.roots) \ ASet(e.declared),
              "extra", ASet(e.declared) \ P!Reachable(e.types, e.roots),
              "declarations", Len(e.declared), "distinct", Cardinality(ASet(e.declared))>>
      [] e.event = "Modules" ->
            <<"unresolved", AllUnresolved(e), "duplicates", AllDup(e),
              "index", ASet(e.reexports), "written", ASet(e.written), "unparsable", AllUnparsable(e)>>
      [] e.event = "Order" -> <<"read before definition", O!EarlyReads(e.module)>>
      [] e.event = "Listeners" ->
            <<"required", P!EventNames(e.emits), "subscribed", {e.listeners[i].subscribed : i \in DOMAIN e.listeners},
              "listeners", Len(e.listeners), "illegal", {e.listeners[i].fn : i \in {j \in DOMAIN e.listeners : ~e.listeners[j].legal}},
              "eventsWritten", e.eventsWritten>>
      [] e.event = "Viz" ->
            LET R == P!Reachable(e.types, e.roots)
                N == ASet(e.tnodes) IN
            <<"nodes missing", R \ N, "nodes extra", N \ P!ReachableAll(e.types, e.roots),
              "edges missing", {x \in N \X N : x[2] \in P!AllDeps(e.types, x[1])} \ ASet(e.tedges),
              "edges extra", {x \in ASet(e.tedges) : x[2] \in N /\ ~(x[1] \in N /\ x[2] \in P!AllDeps(e.types, x[1]))},
              "command edges to undrawn", {x \in ASet(e.cedges) : x[2] \notin N}>>
      [] OTHER -> <<"unknown event">>

TraceInit == l = 1
TraceNext ==
    /\ l <= Len(Rec)
    /\ IF Judge(Rec[l]) THEN TRUE ELSE PrintT(<<"MISMATCH", l, Rec[l].event, Rec[l].case, Why(Rec[l])>>)
    /\ l' = l + 1
TraceSpec == TraceInit /\ [][TraceNext]_l
TraceAccepted ==
    LET d == TLCGet("stats").diameter IN
    IF d - 1 = Len(Rec) THEN PrintT(<<"TRACE-CONSUMED", Len(Rec)>>)
    ELSE PrintT(<<"TRACE-STUCK", d, Len(Rec)>>) /\ FALSE
=============================================================================
