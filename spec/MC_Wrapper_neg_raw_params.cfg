CONSTANT Variant = "raw_params"
SPECIFICATION Spec
INVARIANT ProtocolHolds
CHECK_DEADLOCK FALSE
