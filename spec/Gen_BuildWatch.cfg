INIT Init
NEXT Next
INVARIANT ModelSafe
INVARIANT Emit
CHECK_DEADLOCK FALSE
