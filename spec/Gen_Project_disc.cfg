INIT Init
NEXT Next
CONSTANT Mode = "disc"
CONSTANT EmitDepth = 2
INVARIANT Emit
CHECK_DEADLOCK FALSE
