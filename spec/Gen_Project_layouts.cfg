INIT Init
NEXT Next
CONSTANT Mode = "layouts"
CONSTANT EmitDepth = 2
INVARIANT Emit
CHECK_DEADLOCK FALSE
