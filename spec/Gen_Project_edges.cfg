INIT Init
NEXT Next
CONSTANT Mode = "edges"
CONSTANT EmitDepth = 2
INVARIANT Emit
CHECK_DEADLOCK FALSE
