----------------------------- MODULE Gen_Project -----------------------------
(***************************************************************************)
(* Case generators for C03 (discovery), C07/C09 (type graphs), C12 (emit   *)
(* placements).  One REPLAY line per case; the harness packs many cases    *)
(* into one real project (distinct names per case).                        *)
(***************************************************************************)
EXTENDS Project, TypeLang, Json

CONSTANT Mode,   \* "disc" | "graphs3" | "graphs4" | "edges" | "edges2" | "kinds" | "pairroots" | "layouts" | "derives" | "emits"
         EmitDepth \* 2 | 3 : deepest frame path of the emit cases
VARIABLE c

\* ---- C03: a source file at a path class holding one attributed function
PathClasses == AcceptedPathClasses \cup RejectedPathClasses
Attrs == CommandAttrs \cup OtherAttrs
DiscCasesAll ==
    { [kind |-> "disc", pc |-> pc, parsable |-> pb, attr |-> a, pos |-> p, vis |-> v, async |-> as, nm |-> nm, par |-> par] :
        pc \in PathClasses, pb \in BOOLEAN, a \in Attrs, p \in {"top", "mod", "impl"},
        v \in {"pub", "crate", "private"}, as \in BOOLEAN,
        \* how the function's name is written: plainly, as a raw identifier (fn r#name: invoked as `name`), with a
        \* leading underscore
        nm \in {"plain", "raw", "underscore"},
        \* what the function takes: a value, nothing, only a channel, a value and a channel, only an injected handle
        \* (varied for public synchronous functions; the wrapper's invoke name must be the Rust name for each)
        par \in {"value", "none", "channel", "both", "injected"} }

DiscCases == {dc \in DiscCasesAll : dc.par = "value" \/ (dc.vis = "pub" /\ ~dc.async)}

\* ---- C07/C09: type graphs
N3 == {"A", "B", "C"}
Node(n) == [k |-> "named", n |-> n]
\* all digraphs on three nodes, every edge through Vec (legal on cycles), every non-empty root set
Graphs3 ==
    { [kind |-> "graph", nodes |-> <<"A", "B", "C">>,
       edges |-> [n \in N3 |-> {[ctx |-> "vec", to |-> m, ty |-> Apply("vec", Node(m))] : m \in d[n]}],
       serde |-> [n \in N3 |-> TRUE],
       roots |-> {[site |-> "param", ctx |-> "direct", to |-> r, ty |-> Node(r)] : r \in rs}]
      : d \in [N3 -> SUBSET N3], rs \in (SUBSET N3) \ {{}} }

\* all 543 acyclic digraphs on FOUR nodes (every naming order of every shape: a dependent with fewer dependencies than
\* the type it depends on, "narrow top, wide below", needs four), plain struct fields, every source node a root
N4 == {"A", "B", "C", "D"}
Step4(e, R) == [n \in N4 |-> R[n] \cup e[n] \cup UNION {R[m] : m \in e[n]}]
Closure4(e) == Step4(e, Step4(e, Step4(e, Step4(e, [n \in N4 |-> {}]))))
Dags4 == {e \in [N4 -> SUBSET N4] : \A n \in N4 : n \notin Closure4(e)[n]}
Graphs4 ==
    { [kind |-> "graph", nodes |-> <<"A", "B", "C", "D">>,
       edges |-> [n \in N4 |-> {[ctx |-> "direct", to |-> m, ty |-> Node(m)] : m \in e[n]}],
       serde |-> [n \in N4 |-> TRUE],
       roots |-> {[site |-> "param", ctx |-> "direct", to |-> r, ty |-> Node(r)] : r \in {n \in N4 : \A m \in N4 : n \notin e[m]}}]
      : e \in Dags4 }

\* base shapes (acyclic) with ONE edge realised through each of the 22 contexts and each root site/ctx
Chain   == [A |-> {"B"}, B |-> {"C"}, C |-> {}]
Diamond == [A |-> {"B", "C"}, B |-> {"C"}, C |-> {}]
Fan     == [A |-> {"B", "C"}, B |-> {}, C |-> {}]
Shapes == {Chain, Diamond, Fan}
RootSites == {"param", "ret", "chan", "event", "err"}
EdgeCtxs == Ctxs \cup {"direct"}
Ty(cx, n) == IF cx = "direct" THEN Node(n) ELSE Apply(cx, Node(n))
EdgeCases ==
    { [kind |-> "graph", nodes |-> <<"A", "B", "C", "D">>,
       edges |-> [n \in {"A", "B", "C", "D"} |->
                    IF n = "D" THEN {}
                    ELSE {[ctx |-> (IF n = "A" /\ m = "B" THEN cx ELSE "direct"), to |-> m,
                           ty |-> Ty(IF n = "A" /\ m = "B" THEN cx ELSE "direct", m)] : m \in sh[n]}],
       serde |-> [n \in {"A", "B", "C", "D"} |-> n # "D" \/ sd],
       roots |-> {[site |-> rsite, ctx |-> rcx, to |-> "A", ty |-> Ty(rcx, "A")]}]
      : sh \in Shapes, cx \in EdgeCtxs, rsite \in RootSites, rcx \in {"direct", "opt", "vec", "hmapv", "t2b", "resok"},
        sd \in BOOLEAN }

\* ---- C07: an edge realised through TWO nested constructor contexts (Option<HashMap<K, B>>, Vec<(A, Option<B>)>, ...):
\* "reachability does not depend on how deeply the reference is nested".  B is reachable only through that field;
\* C is an unreachable serde decoy.  The edge is off the wire iff one of the two contexts is the error arm of a Result.
Edges2Cases ==
    { [kind |-> "graph", nodes |-> <<"A", "B", "C">>,
       edges |-> [n \in N3 |-> IF n = "A"
                               THEN {[ctx |-> (IF c1 = "reserr" \/ c2 = "reserr" THEN "reserr" ELSE c1), to |-> "B",
                                      ty |-> Apply(c1, Apply(c2, Node("B")))]}
                               ELSE {}],
       serde |-> [n \in N3 |-> TRUE],
       roots |-> {[site |-> rsite, ctx |-> "direct", to |-> "A", ty |-> Node("A")]}]
      : <<c1, c2>> \in {p \in Ctxs \X Ctxs : CtxOK(p[2], Node("B")) /\ CtxOK(p[1], Apply(p[2], Node("B")))},
        rsite \in {"param", "ret"} }

\* ---- C07: a root that mentions TWO project types at once (an event payload (A, B), a parameter HashMap<A, B>, ...)
\* next to a root that mentions one of them alone.  B (and C behind it) is reachable only through the pair.
\* `ord` fixes the source order of the two functions; `also` lists the further types a root mentions.
PairTy(pc) == CASE pc = "tup_ab"  -> [k |-> "tup", ts |-> <<Node("A"), Node("B")>>]
                [] pc = "tup_ba"  -> [k |-> "tup", ts |-> <<Node("B"), Node("A")>>]
                [] pc = "vec_tup" -> [k |-> "vec", a |-> [k |-> "tup", ts |-> <<Node("A"), Node("B")>>]]
                [] pc = "hmap_ab" -> [k |-> "hmap", a |-> Node("A"), b |-> Node("B")]
                [] pc = "opt_tup3" -> [k |-> "opt", a |-> [k |-> "tup", ts |-> <<L("num"), Node("A"), Node("B")>>]]
PairRootCases ==
    { [kind |-> "graph", nodes |-> <<"A", "B", "C">>,
       edges |-> [n \in N3 |-> IF n = "B" THEN {[ctx |-> "direct", to |-> "C", ty |-> Node("C")]} ELSE {}],
       serde |-> [n \in N3 |-> TRUE],
       roots |-> {[site |-> ss, ctx |-> "direct", to |-> "A", ty |-> Node("A"), also |-> {}, ord |-> so],
                  [site |-> ps, ctx |-> pc, to |-> "A", ty |-> PairTy(pc), also |-> {"B"}, ord |-> 3 - so]}]
      : ss \in {"param", "ret", "chan", "event"}, ps \in {"param", "ret", "chan", "event"},
        pc \in {"tup_ab", "tup_ba", "vec_tup", "hmap_ab", "opt_tup3"}, so \in {1, 2} }

\* ---- C07: ONE field whose type mentions TWO project types (a tuple, a map with a project key, a sequence of pairs),
\* one of which may be the struct itself: the type beside `Self` in a self-referential field is reachable like any other
PairOf(pc, x, y) == CASE pc = "tup"     -> [k |-> "tup", ts |-> <<Node(x), Node(y)>>]
                      [] pc = "vec_tup" -> [k |-> "vec", a |-> [k |-> "tup", ts |-> <<Node(x), Node(y)>>]]
                      [] pc = "hmap"    -> [k |-> "hmap", a |-> Node(x), b |-> Node(y)]
                      [] pc = "opt_hmap_vec" -> [k |-> "opt", a |-> [k |-> "hmap", a |-> Node(x), b |-> [k |-> "vec", a |-> Node(y)]]]
                      [] pc = "tup3"    -> [k |-> "tup", ts |-> <<Node(x), L("num"), Node(y)>>]
PairFieldCases ==
    { [kind |-> "graph", nodes |-> <<"A", "B", "C">>,
       edges |-> [n \in N3 |-> IF n = "A" THEN {[ctx |-> "direct", to |-> x, also |-> {y} \ {x}, ty |-> PairOf(pc, x, y)]}
                               ELSE IF n = "B" /\ chain THEN {[ctx |-> "direct", to |-> "C", ty |-> Node("C")]} ELSE {}],
       serde |-> [n \in N3 |-> TRUE],
       roots |-> {[site |-> s, ctx |-> "direct", to |-> "A", ty |-> Node("A"), also |-> {}, ord |-> 1]}]
      : x \in N3, y \in N3, pc \in {"tup", "vec_tup", "hmap", "opt_hmap_vec", "tup3"}, chain \in BOOLEAN,
        s \in {"param", "ret", "chan", "event"} }

\* ---- C07: what KIND of serde type a reachable leaf is: a struct with named fields, a unit struct (`struct Ping;`),
\* a struct with empty braces, a unit-variant enum.  Chain A -> B -> C and fan A -> {B, C}.
NodeKinds == {"named", "unit", "empty_braces", "enum"}
KindCases ==
    { [kind |-> "graph", nodes |-> <<"A", "B", "C">>,
       edges |-> [n \in N3 |-> {[ctx |-> cx, to |-> m, ty |-> Ty(cx, m)] : m \in sh[n]}],
       serde |-> [n \in N3 |-> TRUE],
       nodekind |-> [n \in N3 |-> IF sh[n] # {} THEN "named" ELSE IF n = "B" THEN kb ELSE kc],
       roots |-> {[site |-> rsite, ctx |-> "direct", to |-> "A", ty |-> Node("A")]}]
      : sh \in {Chain, Fan}, kb \in NodeKinds, kc \in NodeKinds, cx \in {"direct", "opt", "vec"},
        rsite \in {"param", "ret", "chan", "event"} }
    \cup
    \* the leaf itself is the root (a command returning a unit struct, an event whose payload is one)
    { [kind |-> "graph", nodes |-> <<"A", "B", "C">>,
       edges |-> [n \in N3 |-> {}],
       serde |-> [n \in N3 |-> TRUE],
       nodekind |-> [n \in N3 |-> k],
       roots |-> {[site |-> rsite, ctx |-> rcx, to |-> "A", ty |-> Ty(rcx, "A")]}]
      : k \in NodeKinds, rsite \in {"param", "ret", "chan", "event"}, rcx \in {"direct", "opt", "vec"} }

\* ---- C07: ONE command that reaches two types through two different sites (a streaming command with a channel AND a
\* return value, a parameter and a return value, ...).  A sits at `site`, B (-> C) at `site2`; nothing else reaches B.
SplitRootCases ==
    { [kind |-> "graph", nodes |-> <<"A", "B", "C">>,
       edges |-> [n \in N3 |-> IF n = "B" THEN {[ctx |-> "direct", to |-> "C", ty |-> Node("C")]} ELSE {}],
       serde |-> [n \in N3 |-> TRUE],
       roots |-> {[site |-> s1, site2 |-> s2, ctx |-> cx, to |-> "A", also |-> {"B"}, ty |-> Node("A"), ty2 |-> Ty(cx, "B"), ord |-> 1]}]
      : <<s1, s2>> \in {p \in {"param", "ret", "chan"} \X {"param", "ret", "chan"} : p[1] # p[2]},
        cx \in {"direct", "opt", "vec", "resok"} }

\* ---- C07: ONE event name emitted from two functions with DIFFERENT payload types (one listener, but both payload
\* types are event payloads and so is everything behind them)
SameEventCases ==
    { [kind |-> "graph", nodes |-> <<"A", "B", "C">>,
       edges |-> [n \in N3 |-> IF n = "B" THEN {[ctx |-> "direct", to |-> "C", ty |-> Node("C")]} ELSE {}],
       serde |-> [n \in N3 |-> TRUE],
       roots |-> {[site |-> "event", ctx |-> ca, to |-> "A", ty |-> Ty(ca, "A"), also |-> {}, evname |-> "same", ord |-> oa],
                  [site |-> "event", ctx |-> cb, to |-> "B", ty |-> Ty(cb, "B"), also |-> {}, evname |-> "same", ord |-> 3 - oa]}]
      : ca \in {"direct", "vec"}, cb \in {"direct", "opt"}, oa \in {1, 2} }

\* ---- C07: the same graphs spread over files.  `place` maps the command file ("cmd") and every type to one of four
\* file slots; slot order is the order in which the analyser walks the files (path order), so all 256 assignments
\* cover every relative order of "file that mentions a type" and "file that defines it", on chains (depth 2),
\* diamonds, fan-out, a cycle, and two roots sharing a child.
Cycle3     == [A |-> {"B"}, B |-> {"C"}, C |-> {"A"}]
TwoParents == [A |-> {"C"}, B |-> {"C"}, C |-> {}]
LayoutShapes == Shapes \cup {Cycle3, TwoParents}
Slots == 1..4
LayoutCases ==
    { [kind |-> "graph", nodes |-> <<"A", "B", "C">>,
       edges |-> [n \in N3 |-> {[ctx |-> "vec", to |-> m, ty |-> Apply("vec", Node(m))] : m \in sh[n]}],
       serde |-> [n \in N3 |-> TRUE],
       roots |-> {[site |-> rsite, ctx |-> "direct", to |-> r, ty |-> Node(r)]
                    : r \in (IF sh = TwoParents THEN {"A", "B"} ELSE {"A"})},
       place |-> pl]
      : sh \in LayoutShapes, rsite \in {"param", "event"}, pl \in [N3 \cup {"cmd"} -> Slots] }

\* ---- C07: derive spellings.  A chain A -> B -> C (and the fan A -> {B, C}) where every type's derive list is
\* spelled in every way: `serde` follows from the spelling (Project!DerivesSerde).
DeriveKinds == SerdeDerives \cup NonSerdeDerives
DeriveCases ==
    { [kind |-> "graph", nodes |-> <<"A", "B", "C">>,
       edges |-> [n \in N3 |-> {[ctx |-> "direct", to |-> m, ty |-> Node(m)] : m \in sh[n]}],
       serde |-> [n \in N3 |-> DerivesSerde(dk[n])],
       derive |-> dk,
       roots |-> {[site |-> "param", ctx |-> "direct", to |-> "A", ty |-> Node("A")]}]
      : sh \in {Chain, Fan}, dk \in [N3 -> DeriveKinds] }

\* ---- C12: emit placements.  The call sits in a *tail* form inside a path of enclosing *frames* (outermost
\* first) within one top-level function body: "at any block nesting" is the free composition of frames.
Tails == {"stmt", "let_init", "match_arm_expr", "try_op", "await", "unwrap_recv", "ok_recv", "tail_expr",
          "return_expr", "cond"}
Frames == {"if_then", "if_else", "else_if", "else_if_else", "if_let", "match_arm_block", "loop", "labeled_loop",
           "while", "while_let", "for", "nested_block", "labeled_block", "let_init_if", "let_init_match",
           "unsafe_block", "async_block", "closure", "nested_fn"}
\* "global_method": the handle comes out of a global (APP.get().unwrap().emit(..)) and the enclosing function has NO parameters
Receivers == {"app", "window", "webview", "self_app", "self_window", "method_result", "global_method", "handle", "other_field"}
Methods == {"emit", "emit_to"}
EmitRec(fs, p, r, m, li) == [kind |-> "emit", frames |-> fs, placed |-> p, receiver |-> r, method |-> m, lit |-> li]
\* depth <= 1: the full product; depth 2: every frame pair x every tail on the plain receiver;
\* depth 3 (EmitDepth = 3): every frame triple with the statement tail
EmitCases ==
    { EmitRec(<<>>, p, r, m, li) : p \in Tails, r \in Receivers, m \in Methods, li \in BOOLEAN }
    \cup { EmitRec(<<f>>, p, r, m, li) : f \in Frames, p \in Tails, r \in Receivers, m \in Methods, li \in BOOLEAN }
    \cup { EmitRec(<<f, g>>, p, "app", "emit", TRUE) : f \in Frames, g \in Frames, p \in Tails }
    \cup (IF EmitDepth >= 3
          THEN { EmitRec(<<f, g, h>>, "stmt", "window", "emit_to", TRUE) : f \in Frames, g \in Frames, h \in Frames }
          ELSE {})

Space == CASE Mode = "disc"    -> DiscCases
           [] Mode = "graphs3" -> Graphs3
           [] Mode = "graphs4" -> Graphs4
           [] Mode = "edges"   -> EdgeCases
           [] Mode = "layouts" -> LayoutCases
           [] Mode = "derives" -> DeriveCases
           [] Mode = "edges2"  -> Edges2Cases
           [] Mode = "kinds"   -> KindCases
           [] Mode = "pairroots" -> PairRootCases \cup SplitRootCases \cup SameEventCases \cup PairFieldCases
           [] Mode = "emits"   -> EmitCases
Init == c \in Space
Next == UNCHANGED c

SetSeq(S) == IF S = {} THEN <<>> ELSE LET RECURSIVE F(_) F(T) == IF T = {} THEN <<>> ELSE LET x == CHOOSE x \in T : TRUE IN <<x>> \o F(T \ {x}) IN F(S)
Out(x) == IF x.kind = "graph"
          THEN [kind |-> "graph", nodes |-> x.nodes,
                edges |-> [n \in DOMAIN x.edges |-> LET es == SetSeq(x.edges[n]) IN
                                                     [i \in DOMAIN es |-> IF "also" \in DOMAIN es[i] THEN [es[i] EXCEPT !.also = SetSeq(@)] ELSE es[i]]],
                serde |-> x.serde,
                roots |-> LET rs == SetSeq(x.roots) IN
                          [i \in DOMAIN rs |-> IF "also" \in DOMAIN rs[i] THEN [rs[i] EXCEPT !.also = SetSeq(@)] ELSE rs[i]],
                place |-> IF "place" \in DOMAIN x THEN x.place ELSE [n \in {"cmd"} |-> 1],
                derive |-> IF "derive" \in DOMAIN x THEN x.derive ELSE [n \in {"-"} |-> "-"],
                nodekind |-> IF "nodekind" \in DOMAIN x THEN x.nodekind ELSE [n \in {"-"} |-> "-"]]
          ELSE x
Emit == PrintT(<<"REPLAY", ToJson(Out(c))>>)
=============================================================================
