---------------------------- MODULE Gen_ConfigDoc ----------------------------
(* Case generators for C19: (A) document shapes with atom slots; (B) flag/file combinations. *)
EXTENDS ConfigDoc, Json

CONSTANT Mode      \* "docs" | "prec"
VARIABLE c

A(slot) == [k |-> "atom", slot |-> slot]
O(ms) == [k |-> "obj", ms |-> ms]
M(key, v) == [key |-> key, v |-> v]
Arr(es) == [k |-> "arr", es |-> es]

OldTypegen == O(<<M("projectPath", A("s1")), M("outputPath", A("s2")), M("customKey", A("n1"))>>)
\* a complete earlier entry, as an earlier `init` with every option set leaves it behind: writing settings that
\* leave an option unset over it must not resurrect the old value when the document is read back
OldTypegenFull == O(<<M("projectPath", A("s1")), M("outputPath", A("s2")), M("validationLibrary", A("s4")),
                      M("verbose", A("b1")), M("visualizeDeps", A("b2")), M("force", A("b1")),
                      M("typeMappings", O(<<M("OldType", A("s7")), M("Other<Old>", A("s5"))>>)),
                      M("excludePatterns", Arr(<<A("s3"), A("s6")>>)),
                      M("includePatterns", Arr(<<A("s5")>>)),
                      M("defaultParameterCase", A("s6")), M("customKey", A("n1"))>>)
OtherPlugin == O(<<M("open", A("b1")), M("scope", Arr(<<A("s3"), O(<<M("allow", A("b2"))>>)>>))>>)

PluginsVariants ==
    { "absent", "empty", "other", "typegen", "both", "typegen_full", "both_full" }
    \* ("notobject": plugins present but not a JSON object is outside the property's quantifier --
    \*  the settings are then silently not written; kept out of the verdict, see DESIGN.md)

Plugins(v) ==
    CASE v = "empty"   -> O(<<>>)
      [] v = "other"   -> O(<<M("shell", OtherPlugin)>>)
      [] v = "typegen" -> O(<<M("typegen", OldTypegen)>>)
      [] v = "both"    -> O(<<M("shell", OtherPlugin), M("typegen", OldTypegen), M("zzz", A("u1"))>>)
      [] v = "typegen_full" -> O(<<M("typegen", OldTypegenFull)>>)
      [] v = "both_full"    -> O(<<M("aaa", A("u1")), M("typegen", OldTypegenFull), M("shell", OtherPlugin)>>)
      [] v = "notobject" -> A("s4")

Optional == {"product", "build", "app", "ukey"}
Member(o) ==
    CASE o = "product" -> M("productName", A("u2"))
      [] o = "build"   -> M("build", O(<<M("devUrl", A("s5")), M("limits", O(<<M("max", A("n2")), M("min", A("n3")), M("ratio", A("d1")),
                                          M("list", Arr(<<A("n4"), A("d2"), A("null1"), Arr(<<A("b1"), O(<<M("deep", A("e1"))>>)>>)>>))>>))>>))
      [] o = "app"     -> M("app", Arr(<<A("s6"), Arr(<<>>), O(<<>>), A("n5")>>))
      [] o = "ukey"    -> M("ukey1", O(<<M("ukey2", A("u3"))>>))

RECURSIVE SeqOf(_)
SeqOf(S) == IF S = {} THEN <<>> ELSE LET x == CHOOSE x \in S : TRUE IN <<Member(x)>> \o SeqOf(S \ {x})

Docs == { [kind |-> "doc", plugins |-> pv,
           doc |-> O(SeqOf(opts) \o (IF pv = "absent" THEN <<>> ELSE <<M("plugins", Plugins(pv))>>))]
          : pv \in PluginsVariants, opts \in SUBSET Optional }

Val(s) == CASE s \in {"project", "output"} -> {"absent", "A", "B"}
            [] s = "library" -> {"absent", "zod", "none"}
            [] OTHER -> {"absent", "true", "false"}
FlagVal(s) == CASE s \in {"project", "output"} -> {"absent", "A", "D"}
                [] s = "library" -> {"absent", "zod", "none"}
                [] OTHER -> {"absent", "true"}
Prec == { [kind |-> "prec",
           flags |-> [project |-> fp, output |-> fo, library |-> fl, verbose |-> fv, force |-> ff],
           file |-> [project |-> gp, output |-> go, library |-> gl, verbose |-> gv, force |-> gf]] :
           fp \in FlagVal("project"), fo \in FlagVal("output"), fl \in FlagVal("library"),
           fv \in FlagVal("verbose"), ff \in FlagVal("force"),
           gp \in Val("project"), go \in Val("output"), gl \in Val("library"),
           gv \in Val("verbose"), gf \in Val("force") }

Init == c \in (IF Mode = "docs" THEN Docs ELSE Prec)
Next == UNCHANGED c
Emit == PrintT(<<"REPLAY", ToJson(c)>>)
=============================================================================
