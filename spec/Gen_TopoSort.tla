---------------------------- MODULE Gen_TopoSort ----------------------------
(***************************************************************************)
(* Case generator for C20 (spec -> implementation direction): TLC          *)
(* enumerates every initial state of the two step machines (every graph,   *)
(* every requested set / every multigraph) and prints it as one REPLAY     *)
(* line; the harness feeds each to the real routines.                      *)
(***************************************************************************)
EXTENDS DepGraph, Json, SequencesExt

CONSTANTS Nodes, MaxMult

VARIABLE c

RECURSIVE Rep(_, _)
Rep(x, n) == IF n = 0 THEN <<>> ELSE <<x>> \o Rep(x, n - 1)

RECURSIVE FlatUses(_, _)
FlatUses(m, pairs) ==
    IF pairs = <<>> THEN <<>>
    ELSE Rep(<<Head(pairs)[1], Head(pairs)[2]>>, m[Head(pairs)]) \o FlatUses(m, Tail(pairs))

TopoCases ==
    { [kind |-> "topo", nodes |-> SetToSeq(Nodes),
       deps |-> [n \in Nodes |-> SetToSeq(d[n])],
       requested |-> SetToSeq(r)]
      : d \in [Nodes -> SUBSET Nodes], r \in (SUBSET Nodes) \ {{}} }

KahnCases ==
    { [kind |-> "kahn", nodes |-> SetToSeq(ns),
       uses |-> FlatUses(m, SetToSeq(ns \X ns))]
      : ns \in (SUBSET Nodes) \ {{}}, m \in [Nodes \X Nodes -> 0..MaxMult] }

Init == c \in TopoCases \cup KahnCases
Next == UNCHANGED c
Emit == PrintT(<<"REPLAY", ToJson(c)>>)
=============================================================================
