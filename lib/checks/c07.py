"""C07 - types.ts declares exactly the serde types reachable from the public surface.

TLC enumerates (spec/Gen_Project.tla) all 512 digraphs on three types x every non-empty root set, and three base
shapes (chain, diamond, fan-out) with one edge realised through each of 20 constructor contexts, rooted at each
site (parameter, return, channel message, event payload, Result error arm) through 6 root contexts, with a
non-serde / serde unreachable decoy, and five shapes (chain, diamond, fan-out, cycle, two roots over one child)
under all 256 assignments of the command file and the three types to four files whose path order is the analyser's
walk order (quick: one assignment per relative order).  Each graph becomes real structs and commands; the real CLI generates both
modes; Trace_Project.tla judges Project!C07_Holds: declared type names = Reachable(types, roots), once each.
"""
import json
import shutil
import time

from lib import common as C
from lib import graphcases as G
from lib import projcases as PC

PROP = "C07"


def run(tier, seed):
    t0 = time.time()
    d = C.scratch("c07")
    verdicts = C.Verdicts(PROP)
    cases, total = G.generate(tier, seed)
    reach, modules = G.observe(d, cases)
    events = [{"event": "Reach", "case": "g%d/%s" % (r["idx"], r["mode"]), "types": r["types"], "roots": r["roots"],
               "declared": r["declared"]} for r in reach]
    mism = PC.validate_project_trace(d, events, "c07", chunk=2500)
    for idx, why in mism:
        r = reach[idx]
        g = cases[r["idx"]]
        ectx = sorted({e["ctx"] for n in g["edges"] for e in g["edges"][n]})
        root = g["roots"][0]
        txt = str(why)
        kind = "missing" if "'missing', '{}'" not in txt and "missing" in txt else "other"
        w = why if isinstance(why, list) else [str(why)]
        missing = w[1] if len(w) > 1 else ""
        extra = w[3] if len(w) > 3 else ""
        what = "missing" if missing not in ("{}", "") else ("extra" if extra not in ("{}", "") else "duplicate")
        lay = ""
        if g.get("place") and len(g["place"]) > 1:
            pl = g["place"]
            lay = " layout=" + ("one-file" if len(set(pl.values())) == 1 else "multi-file")
        verdicts.reject("mode=%s root=%s/%s edges=%s%s what=%s" % (r["mode"], root["site"], root["ctx"], ",".join(ectx), lay, what),
                        "missing=%s extra=%s" % (_strip(missing), _strip(extra)),
                        "type graph %s rooted at %s via %s (mode %s): declared %s but reachable differs: missing %s extra %s"
                        % (json.dumps({n: [(e["ctx"], e["to"]) for e in g["edges"][n]] for n in g["edges"]}), root["site"], root["ctx"],
                           r["mode"], r["declared"], missing, extra),
                        {"graph": g, "mode": r["mode"]})
    rc = verdicts.finish()
    C.write_evidence(PROP, tier, seed, "exploration", {
        "evaluations": len(events),
        "distinct_nontrivial": len({json.dumps(c, sort_keys=True) for c in cases if any(c["edges"][n] for n in c["edges"])}),
        "rule": "one evaluation = one TLC-enumerated type graph in one mode; %d graphs of %d (all digraphs) + %d (edge contexts) + %d (file layouts) + %d (derive spellings) + %d (nested edge contexts) + %d (roots mentioning two types) + %d (node kinds) enumerated; non-trivial = at least one edge"
                % (len(cases), total[0], total[1], total[2], total[3], total[4], total[5], total[6]),
        "samples": [{"edges": {n: [(e["ctx"], e["to"]) for e in c["edges"][n]] for n in c["edges"]}, "roots": [(r["site"], r["ctx"], r["to"]) for r in c["roots"]]} for c in cases[:: max(1, len(cases) // 5)][:5]],
        "traces_validated_against_impl": len(events),
        "known_findings_matched": len(verdicts.known_hit),
        "exhaustive": tier == "thorough",
    }, time.time() - t0, assumptions=["edges on cycles are realised through Vec (a direct cyclic field is not valid Rust)"],
        violations=len(verdicts.violations))
    shutil.rmtree(d, ignore_errors=True)
    return rc


def _strip(s):
    import re
    return re.sub(r"G\d+", "G", str(s))


def replay(path, seed):
    return run("quick", seed)
