INIT Init
NEXT Next
CONSTANTS MaxDepth = 1
 WithPairs = FALSE
INVARIANT Emit
CHECK_DEADLOCK FALSE
