INIT BInit
NEXT BNext
CONSTANTS MaxDepth = 0
 WithPairs = FALSE
INVARIANT Emit
CHECK_DEADLOCK FALSE
