INIT Init
NEXT Next
INVARIANT ModelOutputWatched
CHECK_DEADLOCK FALSE
