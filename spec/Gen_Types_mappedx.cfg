INIT Init
NEXT Next
CONSTANTS MaxDepth = 2
 ExtraLeaves <- OneMapped
 LeafMode = "mapped"
 WithPairs = FALSE
INVARIANT Emit
CHECK_DEADLOCK FALSE
