SPECIFICATION ReplaySpec
CONSTANTS
 Classes <- ForceClasses
 HashedClasses <- ForceClasses
 VizHashed = TRUE
 FlagOverwritesConfig = FALSE
 EventsHashed = TRUE
 NOrders = 1
 KeyDependsOnOrder = FALSE
 OutputDependsOnOrder = FALSE
 CacheLooksAtFiles = TRUE
 CacheSavedLast = TRUE
 CacheDroppedFirst = TRUE
 Drivers <- CliOnly
 BuildCleansOnEmpty = TRUE
 BuildProbes = FALSE
 MaxEnv = 1
 MaxRuns = 2
 MaxFaults = 0
CONSTRAINT ForceThenPlainConstraint
INVARIANT EmitHist
CHECK_DEADLOCK FALSE
