SPECIFICATION VizSpec
CONSTANTS
 Classes <- AllClasses
 HashedClasses <- AllClasses
 VizHashed = TRUE
 FlagOverwritesConfig = FALSE
 EventsHashed = TRUE
 NOrders = 1
 KeyDependsOnOrder = FALSE
 OutputDependsOnOrder = FALSE
 CacheLooksAtFiles = TRUE
 CacheSavedLast = TRUE
 CacheDroppedFirst = TRUE
 Drivers <- CliOnly
 BuildCleansOnEmpty = TRUE
 BuildProbes = FALSE
 MaxEnv = 1
 MaxRuns = 2
 MaxFaults = 0
CONSTRAINT ReplayConstraint
INVARIANT EmitHist
CHECK_DEADLOCK FALSE
