-------------------------------- MODULE Output --------------------------------
(***************************************************************************)
(* The abstract generated module graph (contract layer for C02, C09).      *)
(*                                                                         *)
(* A module : [file, imports |-> <<[ns, names, from]>>,                     *)
(*             decls |-> <<[name, kind, exported, space, trefs, vrefs,      *)
(*                          lazy]>>]                                        *)
(*   kind  : "interface" | "alias" | "const" | "function"                   *)
(*   space : "type" | "value"      which namespace the name is declared in  *)
(*   trefs : <<[q, n]>> names used in type positions (q = qualifier or "")  *)
(*   vrefs : <<[q, n]>> names used in value positions, evaluated eagerly    *)
(*   lrefs : value references evaluated later (under an arrow function --   *)
(*           z.lazy -- or inside a function body)                           *)
(***************************************************************************)
EXTENDS Naturals, Sequences, FiniteSets, TLC

AsSet(s) == {s[i] : i \in DOMAIN s}

TsBuiltinTypes == {"Array", "Record", "Promise", "Partial", "Required", "Readonly", "Pick", "Omit",
                   "Map", "Set", "Date", "Error", "Uint8Array", "ReadonlyArray", "NonNullable",
                   "Exclude", "Extract", "ReturnType", "Parameters", "Awaited"}
JsGlobals == {"undefined", "null", "Promise", "Error", "JSON", "Object", "Array", "console", "Math",
              "Number", "String", "Boolean", "Date", "Map", "Set", "Symbol", "this", "globalThis"}

Declared(m, space) == {m.decls[i].name : i \in {j \in DOMAIN m.decls : m.decls[j].space = space}}
Exported(m, space) == {m.decls[i].name : i \in {j \in DOMAIN m.decls : m.decls[j].space = space /\ m.decls[j].exported}}
ImportedNames(m) == UNION {AsSet(m.imports[i].names) : i \in DOMAIN m.imports}
Namespaces(m) == {m.imports[i].ns : i \in DOMAIN m.imports} \ {""}
NsTarget(m, ns) == (CHOOSE i \in DOMAIN m.imports : m.imports[i].ns = ns)

\* mods : function file -> module ; resolution of one reference r = [q, n] inside module m
TypeRefResolves(mods, m, tparams, r) ==
    IF r.q = "" THEN
        \/ r.n \in Declared(m, "type") \/ r.n \in ImportedNames(m) \/ r.n \in TsBuiltinTypes
        \/ r.n \in tparams
    ELSE IF r.q \in Namespaces(m) THEN
        LET from == m.imports[NsTarget(m, r.q)].from IN
        IF from \in DOMAIN mods THEN r.n \in Exported(mods[from], "type")
        ELSE TRUE                                     \* external package: not our business
    ELSE r.q \in ImportedNames(m)                     \* e.g. z.infer -- member of an imported value

ValueRefResolves(mods, m, locals, r) ==
    IF r.q = "" THEN
        \/ r.n \in Declared(m, "value") \/ r.n \in ImportedNames(m) \/ r.n \in JsGlobals \/ r.n \in locals
    ELSE IF r.q \in Namespaces(m) THEN
        LET from == m.imports[NsTarget(m, r.q)].from IN
        IF from \in DOMAIN mods THEN r.n \in Exported(mods[from], "value")
        ELSE TRUE
    ELSE r.q \in ImportedNames(m) \/ r.q \in Declared(m, "value") \/ r.q \in locals \/ r.q \in JsGlobals

UnresolvedIn(mods, m, d) ==
    { <<m.file, d.name, r.q, r.n>> : r \in {x \in AsSet(d.trefs) : ~TypeRefResolves(mods, m, AsSet(d.tparams), x)} }
    \cup
    { <<m.file, d.name, r.q, r.n>> : r \in {x \in AsSet(d.vrefs) \cup AsSet(d.lrefs) : ~ValueRefResolves(mods, m, AsSet(d.locals), x)} }
\* a member reference found by scanning a function body (type or value position unknown):
\* it must resolve in one of the two declaration spaces
BodyRefResolves(mods, m, locals, r) ==
    TypeRefResolves(mods, m, {}, r) \/ ValueRefResolves(mods, m, locals, r)
Unresolved(mods, m) == UNION { UnresolvedIn(mods, m, m.decls[i]) \cup
                               { <<m.file, m.decls[i].name, r.q, r.n>> :
                                   r \in {x \in AsSet(m.decls[i].brefs) : ~BodyRefResolves(mods, m, AsSet(m.decls[i].locals), x)} }
                               : i \in DOMAIN m.decls }

Closed(mods) == \A f \in DOMAIN mods : Unresolved(mods, mods[f]) = {}

\* no module declares the same exported name twice (per declaration space)
DuplicateExports(m) ==
    { n \in Exported(m, "type") \cup Exported(m, "value") :
        \/ Cardinality({i \in DOMAIN m.decls : m.decls[i].name = n /\ m.decls[i].space = "type" /\ m.decls[i].exported}) > 1
        \/ Cardinality({i \in DOMAIN m.decls : m.decls[i].name = n /\ m.decls[i].space = "value" /\ m.decls[i].exported}) > 1 }
NoDuplicateExports(mods) == \A f \in DOMAIN mods : DuplicateExports(mods[f]) = {}

\* index re-exports exactly the files written by the same run
IndexMatches(reexports, written) == AsSet(reexports) = AsSet(written) \ {"index"}

-----------------------------------------------------------------------------
(* C09: evaluating the module top to bottom never reads a const before its  *)
(* definition.  stmts : <<[name, vrefs]>> the value declarations in order.  *)

ConstNames(m) == {m.decls[k].name : k \in {kk \in DOMAIN m.decls : m.decls[kk].kind = "const"}}
DefinedBefore(m, i, n) == \E k \in 1..(i - 1) : m.decls[k].name = n /\ m.decls[k].kind = "const"
EarlyReadsAt(m, i) ==
    IF m.decls[i].kind # "const" THEN {}
    ELSE { <<m.decls[i].name, r.n>> :
             r \in { x \in AsSet(m.decls[i].vrefs) :
                        x.q = "" /\ x.n \in ConstNames(m) /\ ~DefinedBefore(m, i, x.n) } }
EarlyReads(m) == UNION { EarlyReadsAt(m, i) : i \in DOMAIN m.decls }

DefinedBeforeUse(m) == EarlyReads(m) = {}
=============================================================================
